(* C16 proofs: chunking invariance of the reader (with the length guards),
   COBS encode / in-place decode round trip, the glue between the two layers,
   and resynchronisation after damage. *)
From Verif Require Import Base.Bytes Cobs.Model.
Local Open Scope N_scope.

(* ================= stream layer (design appendix A.4) ================= *)
Lemma strip0_idem l : strip0 (strip0 l) = strip0 l.
Proof. induction l as [|b l IH]; cbn; [reflexivity|]. destruct (isz b) eqn:E; [exact IH|]. cbn. rewrite E. reflexivity. Qed.

Lemma strip0_app_nz l c : strip0 l <> [] -> strip0 (l ++ c) = strip0 l ++ c.
Proof.
  induction l as [|b l IH]; cbn; intros H; [contradiction|].
  destruct (isz b) eqn:E; [apply IH; exact H|]. reflexivity.
Qed.

Lemma strip0_app_all0 l c : strip0 l = [] -> strip0 (l ++ c) = strip0 c.
Proof.
  induction l as [|b l IH]; cbn; intros H; [reflexivity|].
  destruct (isz b) eqn:E; [apply IH; exact H|discriminate].
Qed.

Lemma take_frame_strip buf : take_frame (strip0 buf) = take_frame buf.
Proof. unfold take_frame. rewrite strip0_idem. reflexivity. Qed.

Lemma cut0_app_some l c f r : cut0 l = Some (f, r) -> cut0 (l ++ c) = Some (f, r ++ c).
Proof.
  revert f r. induction l as [|b l IH]; cbn; intros f r H; [discriminate|].
  destruct (isz b); [inversion H; subst; reflexivity|].
  destruct (cut0 l) as [[f' r']|] eqn:E; [|discriminate]. inversion H; subst.
  rewrite (IH _ _ eq_refl). reflexivity.
Qed.

Lemma take_frame_app_some buf c f r :
  take_frame buf = Some (f, r) -> take_frame (buf ++ c) = Some (f, r ++ c).
Proof.
  unfold take_frame. intros H.
  assert (strip0 buf <> []) by (intros E; rewrite E in H; discriminate).
  rewrite strip0_app_nz by assumption. apply cut0_app_some. exact H.
Qed.

(* length facts for fuel *)
Lemma strip0_len l : (length (strip0 l) <= length l)%nat.
Proof. induction l as [|b l IH]; cbn; [lia|]. destruct (isz b); cbn; lia. Qed.
Lemma cut0_len l f r : cut0 l = Some (f, r) -> (length r < length l)%nat.
Proof.
  revert f r. induction l as [|b l IH]; cbn; intros f r H; [discriminate|].
  destruct (isz b); [inversion H; subst; lia|].
  destruct (cut0 l) as [[f' r']|] eqn:E; [|discriminate]. inversion H; subst.
  specialize (IH _ _ eq_refl). lia.
Qed.
Lemma take_frame_len l f r : take_frame l = Some (f, r) -> (length r < length l)%nat.
Proof. unfold take_frame. intros H. apply cut0_len in H. pose proof (strip0_len l). lia. Qed.

(* frames_fuel is stable once fuel exceeds length *)
Lemma frames_fuel_stable : forall n m s, (length s < n)%nat -> (length s < m)%nat ->
  frames_fuel n s = frames_fuel m s.
Proof.
  induction n as [|n IH]; intros m s Hn Hm; [lia|].
  destruct m as [|m]; [lia|]. cbn [frames_fuel].
  destruct (take_frame s) as [[f r]|] eqn:E; [|reflexivity].
  apply take_frame_len in E. rewrite (IH m r) by lia. reflexivity.
Qed.

Lemma frames_unfold s :
  frames s = match take_frame s with
             | Some (f, r) => let '(fs, t) := frames r in (f :: fs, t)
             | None => ([], strip0 s)
             end.
Proof.
  unfold frames. cbn [frames_fuel]. destruct (take_frame s) as [[f r]|] eqn:E; [|reflexivity].
  apply take_frame_len in E. rewrite (frames_fuel_stable (length s) (S (length r)) r) by lia. reflexivity.
Qed.

Lemma frames_strip s : frames (strip0 s) = frames s.
Proof. rewrite (frames_unfold (strip0 s)), (frames_unfold s), take_frame_strip, strip0_idem. reflexivity. Qed.

(* no frame in buf: appending c is the same as appending to the stripped buffer *)
Lemma frames_app_none buf c : take_frame buf = None -> frames (buf ++ c) = frames (strip0 buf ++ c).
Proof.
  intros H. destruct (strip0 buf) as [|b l] eqn:E.
  - rewrite <- frames_strip. rewrite strip0_app_all0 by exact E. rewrite frames_strip. reflexivity.
  - rewrite <- frames_strip. rewrite strip0_app_nz by (rewrite E; discriminate). rewrite E.
    rewrite <- (frames_strip ((b :: l) ++ c)).
    assert (isz b = false) as Hb.
    { clear -E. induction buf as [|x buf IH]; cbn in E; [discriminate|].
      destruct (isz x) eqn:Ex; [apply IH; exact E|]. inversion E; subst. exact Ex. }
    cbn [app strip0]. rewrite Hb. reflexivity.
Qed.


(* ================= codec layer (design appendix A.8) ================= *)
Definition nz (l : list N) := Forall (fun b => b <> 0 /\ b < 256) l.

(* copying the data bytes of one block *)
Lemma dec_copy : forall data off ioff out rest,
  nz data -> ioff + N.of_nat (length data) < off ->
  dec off ioff out (data ++ rest) = dec off (ioff + N.of_nat (length data)) (rev data ++ out) rest.
Proof.
  induction data as [|d data IH]; intros off ioff out rest Hnz Hlt.
  - cbn. rewrite N.add_0_r. reflexivity.
  - inversion Hnz as [|? ? [Hd _] Hnz']; subst. cbn [app dec].
    cbn [length] in Hlt. rewrite Nat2N.inj_succ in Hlt.
    destruct (ioff + 1 =? off) eqn:E; [apply N.eqb_eq in E; lia|].
    destruct (d =? 0) eqn:Ed; [apply N.eqb_eq in Ed; contradiction|].
    rewrite IH by (auto; lia). cbn [length rev]. rewrite Nat2N.inj_succ, <- app_assoc. cbn.
    f_equal. lia.
Qed.

(* one whole block "code :: data" with code = |data| + 1, followed by the next code byte c *)
Lemma dec_block data out c rest :
  nz data -> (length data < 255)%nat ->
  let code := N.of_nat (length data + 1) in
  dec code 0 out (data ++ c :: rest) =
    if c =? 0 then Some (rev (rev data ++ out))
    else dec c 0 (if code =? 255 then rev data ++ out else 0 :: rev data ++ out) rest.
Proof.
  intros Hnz Hlen code. unfold code.
  rewrite dec_copy by (auto; lia). cbn [dec]. rewrite N.add_0_l.
  replace (N.of_nat (length data) + 1 =? N.of_nat (length data + 1)) with true by (symmetry; apply N.eqb_eq; lia).
  reflexivity.
Qed.


Lemma nz_split n l : nz l -> nz (firstn n l) /\ nz (skipn n l).
Proof. unfold nz. intros H. rewrite <- (firstn_skipn n l) in H. apply Forall_app in H. exact H. Qed.

(* the decoder positioned on a code byte; poff = code of the block just finished *)
Definition ins (poff : N) (out : list N) := if poff =? 255 then out else 0 :: out.
Definition next (poff : N) (out : list N) (l : list N) : option (list N) :=
  match l with
  | [] => Some (rev out)
  | c :: rest => if c =? 0 then Some (rev out) else dec c 0 (ins poff out) rest
  end.

Lemma dec_block' data out l :
  nz data -> (length data < 255)%nat ->
  dec (N.of_nat (length data + 1)) 0 out (data ++ l) = next (N.of_nat (length data + 1)) (rev data ++ out) l.
Proof.
  intros Hnz Hlen. destruct l as [|c rest].
  - rewrite app_nil_r. rewrite <- (app_nil_r data) at 2. rewrite dec_copy by (auto; lia). cbn. reflexivity.
  - rewrite dec_block by assumption. cbn [next]. unfold ins. destruct (c =? 0); reflexivity.
Qed.

(* a whole run: blocks of 254 with code 255, then a final block with code < 255 *)
Lemma next_run : forall fuel run poff out l,
  nz run -> (length run < fuel)%nat ->
  exists lc, lc <> 255 /\ 
    next poff out (enc_run fuel run ++ l) = next lc (rev run ++ ins poff out) l.
Proof.
  induction fuel as [|fuel IH]; intros run poff out l Hnz Hf; [lia|].
  cbn [enc_run]. destruct (254 <=? length run)%nat eqn:E.
  - apply Nat.leb_le in E.
    destruct (nz_split 254 run Hnz) as [Hn1 Hn2].
    assert (L1 : length (firstn 254 run) = 254%nat) by (rewrite firstn_length; lia).
    cbn [app next]. change (255 =? 0) with false. cbv iota.
    rewrite <- app_assoc.
    pose proof (dec_block' (firstn 254 run) (ins poff out) (enc_run fuel (skipn 254 run) ++ l) Hn1) as B.
    rewrite L1 in B. change (N.of_nat (254 + 1)) with 255 in B. rewrite B by lia.
    destruct (IH (skipn 254 run) 255 (rev (firstn 254 run) ++ ins poff out) l Hn2) as (lc & Hlc & Heq).
    { rewrite skipn_length. lia. }
    exists lc. split; [exact Hlc|]. rewrite Heq. unfold ins at 1. change (255 =? 255) with true. cbv iota.
    rewrite app_assoc, <- rev_app_distr, firstn_skipn. reflexivity.
  - apply Nat.leb_gt in E.
    exists (N.of_nat (length run + 1)). split; [lia|].
    cbn [app next].
    replace (N.of_nat (length run + 1) =? 0) with false by (symmetry; apply N.eqb_neq; lia).
    apply dec_block'; [exact Hnz|lia].
Qed.

(* joining runs back with single zeros *)
Fixpoint join (rs : list (list N)) : list N :=
  match rs with
  | [] => []
  | [r] => r
  | r :: rs' => r ++ 0 :: join rs'
  end.

Lemma next_runs : forall rs poff out,
  rs <> [] -> Forall nz rs ->
  next poff out (flat_map (fun r => enc_run (S (length r)) r) rs ++ [0]) =
    Some (rev out ++ (if poff =? 255 then [] else [0]) ++ join rs).
Proof.
  induction rs as [|r rs IH]; intros poff out Hne Hnz; [contradiction|].
  inversion Hnz as [|? ? Hr Hrs]; subst.
  cbn [flat_map]. rewrite <- app_assoc.
  destruct (next_run (S (length r)) r poff out (flat_map (fun r => enc_run (S (length r)) r) rs ++ [0]) Hr) as (lc & Hlc & Heq); [lia|].
  rewrite Heq. destruct rs as [|r' rs'].
  - cbn [flat_map app next]. change (0 =? 0) with true. cbv iota. f_equal.
    rewrite rev_app_distr, rev_involutive. unfold ins. destruct (poff =? 255); cbn [rev app].
    + reflexivity.
    + rewrite <- app_assoc. reflexivity.
  - rewrite IH by (auto; discriminate).
    apply N.eqb_neq in Hlc. rewrite Hlc. f_equal.
    rewrite rev_app_distr, rev_involutive. unfold ins.
    change (join (r :: r' :: rs')) with (r ++ 0 :: join (r' :: rs')).
    destruct (poff =? 255); cbn [rev app]; rewrite <- ?app_assoc; reflexivity.
Qed.

(* runs / join are inverse, and runs are zero-free *)
Lemma runs_spec : forall l cur,
  Forall (fun b => b < 256) l -> nz (rev cur) ->
  runs cur l <> [] /\ Forall nz (runs cur l) /\ join (runs cur l) = rev cur ++ l.
Proof.
  induction l as [|b l IH]; intros cur Hb Hc.
  - cbn. repeat split; [discriminate|constructor; [exact Hc|constructor]|rewrite app_nil_r; reflexivity].
  - inversion Hb as [|? ? Hb1 Hb2]; subst. cbn [runs]. destruct (b =? 0) eqn:E.
    + apply N.eqb_eq in E. subst b.
      destruct (IH [] Hb2) as (Hne & Hf & Hj); [constructor|].
      repeat split; [discriminate|constructor; assumption|].
      destruct (runs [] l) as [|r rs] eqn:R; [contradiction|].
      change (join (rev cur :: r :: rs)) with (rev cur ++ 0 :: join (r :: rs)). rewrite Hj. reflexivity.
    + apply N.eqb_neq in E.
      destruct (IH (b :: cur) Hb2) as (Hne & Hf & Hj).
      { cbn [rev]. unfold nz in *. apply Forall_app. split; [exact Hc|]. constructor; [split; assumption|constructor]. }
      repeat split; [exact Hne|exact Hf|]. rewrite Hj. cbn [rev]. rewrite <- app_assoc. reflexivity.
Qed.

Theorem cobs_roundtrip f : Forall (fun b => b < 256) f -> decode (encode f) = Some f.
Proof.
  intros Hb. destruct (runs_spec f [] Hb) as (Hne & Hf & Hj); [constructor|].
  unfold encode, enc_body.
  (* the first byte of the encoding is a non-zero code, so decode = next 255 [] *)
  assert (D : forall l, decode l = next 255 [] l \/ exists l', l = 0 :: l').
  { intros [|c l']; [left; reflexivity|]. destruct (c =? 0) eqn:E.
    - right. apply N.eqb_eq in E. subst. eauto.
    - left. cbn. rewrite E. reflexivity. }
  destruct (D (flat_map (fun r => enc_run (S (length r)) r) (runs [] f) ++ [0])) as [->|[l' Hl']].
  - rewrite next_runs by assumption. cbn. rewrite Hj. reflexivity.
  - exfalso. destruct (runs [] f) as [|r rs]; [contradiction|].
    cbn [flat_map enc_run] in Hl'. destruct (254 <=? length r)%nat; cbn in Hl'; inversion Hl'; lia.
Qed.

(* ================= glue between the two layers ================= *)
Definition zf (l : list N) := Forall (fun b => b <> 0) l.

Lemma nz_zf l : nz l -> zf l.
Proof. unfold nz, zf. intros H. eapply Forall_impl; [|exact H]. cbn. tauto. Qed.

Lemma cut0_zf_app p X : zf p ->
  cut0 (p ++ X) = match cut0 X with Some (f, r) => Some (p ++ f, r) | None => None end.
Proof.
  induction p as [|a p IH]; intros H; cbn [app].
  - destruct (cut0 X) as [[f r]|]; reflexivity.
  - inversion H as [|? ? Ha Hp]; subst. cbn [cut0]. unfold isz.
    apply N.eqb_neq in Ha. rewrite Ha. rewrite (IH Hp).
    destruct (cut0 X) as [[f r]|]; reflexivity.
Qed.

Lemma cut0_none_zf l : cut0 l = None -> zf l.
Proof.
  induction l as [|a l IH]; cbn; intros H; [constructor|].
  unfold isz in H. destruct (a =? 0) eqn:E; [discriminate|].
  destruct (cut0 l) as [[f r]|]; [discriminate|].
  constructor; [apply N.eqb_neq; exact E|apply IH; reflexivity].
Qed.

Lemma strip0_zf_app p X : zf p -> p <> [] -> strip0 (p ++ X) = p ++ X.
Proof.
  intros H Hne. destruct p as [|a p]; [contradiction|]. inversion H as [|? ? Ha _]; subst.
  cbn. unfold isz. apply N.eqb_neq in Ha. rewrite Ha. reflexivity.
Qed.

Definition first_len (r : list (list N) * list N) : nat :=
  match fst r with f :: _ => length f | [] => length (snd r) end.

Lemma frames_zf_prefix p X : zf p -> (length p <= first_len (frames (p ++ X)))%nat.
Proof.
  intros H. destruct p as [|a p]; [cbn; lia|].
  rewrite frames_unfold. unfold take_frame.
  rewrite strip0_zf_app by (auto; discriminate).
  rewrite cut0_zf_app by exact H.
  destruct (cut0 X) as [[f r]|].
  - destruct (frames r) as [fs t]. unfold first_len. cbn [fst]. rewrite app_length. lia.
  - unfold first_len. cbn [fst snd]. rewrite app_length. lia.
Qed.

Definition bounded (L : nat) (r : list (list N) * list N) : Prop :=
  Forall (fun f => (length f <= L)%nat) (fst r) /\ (length (snd r) <= L)%nat.

Lemma bounded_first L r : bounded L r -> (first_len r <= L)%nat.
Proof.
  unfold bounded, first_len. intros [H1 H2]. destruct (fst r) as [|f fs]; [exact H2|].
  inversion H1; subst. assumption.
Qed.

(* ================= the reader with its guards equals the stream specification ================= *)
Section ReaderProofs.
Variables blen maxlen L : nat.
Hypothesis HLb : (L < blen)%nat.
Hypothesis HLm : (L <= maxlen)%nat.

Theorem reads_frames : forall fuel lo chunks,
  bounded L (frames (lo ++ concat chunks)) ->
  (length lo + length (concat chunks) + length chunks < fuel)%nat ->
  reads blen maxlen fuel lo chunks =
    map (seg_result blen) (fst (frames (lo ++ concat chunks))) ++ [RErr 9].
Proof.
  induction fuel as [|fuel IH]; intros lo chunks HB Hf; [lia|].
  cbn [reads]. destruct (take_frame lo) as [[seg rest]|] eqn:E.
  - rewrite frames_unfold in HB |- *.
    rewrite (take_frame_app_some _ _ _ _ E) in HB |- *.
    pose proof (take_frame_len _ _ _ E) as Hlen.
    destruct (frames (rest ++ concat chunks)) as [fs t] eqn:EF.
    cbn [fst map app]. f_equal.
    rewrite IH; [rewrite EF; reflexivity| |lia].
    rewrite EF. destruct HB as [HB1 HB2]. cbn [fst snd] in *. inversion HB1; subst. split; assumption.
  - assert (Hs : (length (strip0 lo) <= L)%nat).
    { rewrite (frames_app_none _ _ E) in HB.
      pose proof (frames_zf_prefix (strip0 lo) (concat chunks) (cut0_none_zf _ E)) as P.
      pose proof (bounded_first _ _ HB). lia. }
    unfold guard_fires.
    replace (blen <=? length (strip0 lo))%nat with false by (symmetry; apply Nat.leb_gt; lia).
    replace (maxlen <? length (strip0 lo))%nat with false by (symmetry; apply Nat.ltb_ge; lia).
    cbn [orb]. destruct chunks as [|c cs].
    + cbn [concat]. rewrite app_nil_r. rewrite frames_unfold, E. reflexivity.
    + cbn [concat] in *. rewrite (frames_app_none _ _ E) in HB |- *.
      rewrite app_assoc in HB |- *. apply IH; [exact HB|].
      pose proof (strip0_len lo). cbn [length] in Hf. rewrite !app_length in *. lia.
Qed.
End ReaderProofs.

(* ================= encoded frames ================= *)
Lemma enc_run_zf : forall fuel r, nz r -> zf (enc_run fuel r).
Proof.
  induction fuel as [|fuel IH]; intros r Hr; cbn [enc_run].
  - constructor; [lia|constructor].
  - destruct (254 <=? length r)%nat.
    + destruct (nz_split 254 r Hr) as [H1 H2]. constructor; [lia|].
      apply Forall_app. split; [apply nz_zf; exact H1|apply IH; exact H2].
    + constructor; [lia|apply nz_zf; exact Hr].
Qed.

Lemma enc_run_len : forall fuel r, (length r < fuel)%nat -> (length r + 1 <= length (enc_run fuel r))%nat.
Proof.
  induction fuel as [|fuel IH]; intros r Hf; [lia|]. cbn [enc_run].
  destruct (254 <=? length r)%nat eqn:E.
  - apply Nat.leb_le in E. cbn [length]. rewrite app_length, firstn_length.
    specialize (IH (skipn 254 r)). rewrite skipn_length in IH. lia.
  - cbn [length]. lia.
Qed.

Lemma enc_body_zf f : Forall (fun b => b < 256) f -> zf (enc_body f).
Proof.
  intros Hb. destruct (runs_spec f [] Hb) as (_ & Hf & _); [constructor|].
  unfold enc_body. induction (runs [] f) as [|r rs IH]; cbn [flat_map]; [constructor|].
  inversion Hf; subst. apply Forall_app. split; [apply enc_run_zf; assumption|apply IH; assumption].
Qed.

Lemma flat_enc_len : forall rs, rs <> [] ->
  (length (join rs) + 1 <= length (flat_map (fun r => enc_run (S (length r)) r) rs))%nat.
Proof.
  induction rs as [|r rs IH]; intros Hne; [contradiction|].
  cbn [flat_map]. rewrite app_length.
  pose proof (enc_run_len (S (length r)) r (Nat.lt_succ_diag_r _)) as Hr.
  destruct rs as [|r' rs'].
  - cbn [join flat_map length]. lia.
  - change (join (r :: r' :: rs')) with (r ++ 0 :: join (r' :: rs')).
    rewrite app_length. cbn [length]. specialize (IH ltac:(discriminate)). lia.
Qed.

Lemma enc_body_len f : Forall (fun b => b < 256) f -> (length f + 1 <= length (enc_body f))%nat.
Proof.
  intros Hb. destruct (runs_spec f [] Hb) as (Hne & _ & Hj); [constructor|].
  cbn [rev app] in Hj. rewrite <- Hj at 1. apply flat_enc_len. exact Hne.
Qed.

Lemma encode_length f : length (encode f) = S (length (enc_body f)).
Proof. unfold encode. rewrite app_length. cbn. lia. Qed.

Lemma decode_inplace_encode f :
  f <> [] -> Forall (fun b => b < 256) f -> decode_inplace (enc_body f ++ [0]) = RFrame f.
Proof.
  intros Hne Hb. unfold decode_inplace.
  pose proof (enc_body_len f Hb) as Hl.
  assert (0 < length f)%nat by (destruct f; [contradiction|cbn; lia]).
  replace (length (enc_body f ++ [0%N]) <=? 2)%nat with false
    by (symmetry; apply Nat.leb_gt; rewrite app_length; cbn [length]; lia).
  change (enc_body f ++ [0]) with (encode f). rewrite cobs_roundtrip by exact Hb. reflexivity.
Qed.

Definition frame_ok (blen maxlen : nat) (f : list N) : Prop :=
  f <> [] /\ Forall (fun b => b < 256) f /\
  (length (encode f) <= blen)%nat /\ (length (encode f) <= maxlen + 1)%nat.

Lemma seg_result_encode blen maxlen f :
  frame_ok blen maxlen f -> seg_result blen (enc_body f) = RFrame f.
Proof.
  intros (Hne & Hb & H1 & _). unfold seg_result. rewrite encode_length in H1.
  replace (blen <? length (enc_body f) + 1)%nat with false by (symmetry; apply Nat.ltb_ge; lia).
  apply decode_inplace_encode; assumption.
Qed.

(* the stream written by successive Write calls splits into exactly the encoded bodies *)
Lemma frames_writes_app : forall fs X,
  Forall (fun f => Forall (fun b => b < 256) f) fs ->
  frames (concat (map write fs) ++ X) =
    (map enc_body fs ++ fst (frames X), snd (frames X)).
Proof.
  induction fs as [|f fs IH]; intros X Hb; cbn [map concat app].
  - destruct (frames X); reflexivity.
  - inversion Hb as [|? ? Hf Hfs]; subst.
    rewrite frames_unfold. unfold write, encode. cbn [app]. unfold take_frame. cbn [strip0]. unfold isz at 1.
    change (0 =? 0) with true. cbv iota.
    rewrite <- !app_assoc. cbn [app].
    assert (Hz : zf (enc_body f)) by (apply enc_body_zf; exact Hf).
    assert (Hn : enc_body f <> []).
    { pose proof (enc_body_len f Hf). destruct (enc_body f); [cbn in *; lia|discriminate]. }
    rewrite strip0_zf_app by assumption.
    rewrite cut0_zf_app by assumption. cbn [cut0]. unfold isz. change (0 =? 0) with true. cbv iota.
    rewrite app_nil_r.
    change (fun f0 : list N => 0 :: enc_body f0 ++ [0]) with write.
    rewrite (IH X Hfs). reflexivity.
Qed.

Lemma frames_nil : frames [] = ([], []).
Proof. reflexivity. Qed.

Lemma frames_writes fs :
  Forall (fun f => Forall (fun b => b < 256) f) fs ->
  frames (concat (map write fs)) = (map enc_body fs, []).
Proof.
  intros H. rewrite <- (app_nil_r (concat (map write fs))). rewrite frames_writes_app by exact H.
  rewrite frames_nil. cbn [fst snd]. rewrite app_nil_r. reflexivity.
Qed.

Lemma reads_fuel_enough chunks :
  (length (@nil N) + length (concat chunks) + length chunks < reads_fuel [] chunks)%nat.
Proof. unfold reads_fuel. cbn [length]. lia. Qed.

Lemma map_seg_result_ok blen maxlen fs :
  Forall (frame_ok blen maxlen) fs -> map (seg_result blen) (map enc_body fs) = map RFrame fs.
Proof.
  induction fs as [|f fs IH]; intros H; [reflexivity|]. inversion H; subst. cbn [map].
  rewrite (seg_result_encode blen maxlen) by assumption. rewrite IH by assumption. reflexivity.
Qed.

(* C16, first sentence: any segmentation of the written stream yields exactly the frames *)
Theorem chunking_invariant blen maxlen fs chunks :
  (0 < blen)%nat ->
  Forall (frame_ok blen maxlen) fs ->
  concat chunks = concat (map write fs) ->
  reads_all blen maxlen chunks = map RFrame fs ++ [RErr 9].
Proof.
  intros Hb Hok Hc. unfold reads_all.
  assert (Hbytes : Forall (fun f => Forall (fun b => b < 256) f) fs).
  { eapply Forall_impl; [|exact Hok]. intros f (_ & H & _). exact H. }
  rewrite (reads_frames blen maxlen (Nat.min (blen - 1) maxlen)); try lia.
  - cbn [app]. rewrite Hc, frames_writes by exact Hbytes. cbn [fst].
    rewrite (map_seg_result_ok blen maxlen) by exact Hok. reflexivity.
  - cbn [app]. rewrite Hc, frames_writes by exact Hbytes. split; cbn [fst snd length]; [|lia].
    apply Forall_map. eapply Forall_impl; [|exact Hok]. intros f (_ & _ & H1 & H2).
    rewrite encode_length in H1, H2. lia.
  - apply reads_fuel_enough.
Qed.

(* ================= resynchronisation after damage ================= *)
Lemma frames_app0 : forall n a b, (length a <= n)%nat ->
  frames (a ++ 0 :: b) = (fst (frames (a ++ [0])) ++ fst (frames b), snd (frames b)).
Proof.
  induction n as [|n IH]; intros a b Hn.
  - destruct a; [|cbn in Hn; lia]. cbn [app].
    rewrite (frames_unfold (0 :: b)). unfold take_frame. cbn [strip0]. unfold isz at 1. change (0 =? 0) with true. cbv iota.
    fold (take_frame b). rewrite (frames_unfold b) at 1.
    replace (strip0 (0 :: b)) with (strip0 b) by reflexivity.
    change (frames [0]) with (@nil (list N), @nil N). cbn [fst app].
    destruct (take_frame b) as [[f r]|] eqn:E.
    + rewrite (frames_unfold b), E. destruct (frames r); reflexivity.
    + rewrite (frames_unfold b), E. reflexivity.
  - destruct (take_frame a) as [[f r]|] eqn:E.
    + rewrite frames_unfold, (take_frame_app_some _ _ _ _ E).
      rewrite (frames_unfold (a ++ [0])), (take_frame_app_some _ _ _ _ E).
      pose proof (take_frame_len _ _ _ E).
      rewrite (IH r b) by lia. destruct (frames (r ++ [0])) as [fr tr]. destruct (frames b) as [fb tb].
      reflexivity.
    + rewrite (frames_app_none _ _ E). rewrite (frames_app_none a [0] E).
      pose proof (cut0_none_zf _ E) as Hz.
      destruct (strip0 a) as [|x p] eqn:Es.
      * cbn [app]. apply (IH [] b). cbn; lia.
      * rewrite frames_unfold. unfold take_frame.
        rewrite strip0_zf_app by (auto; discriminate). rewrite cut0_zf_app by exact Hz.
        cbn [cut0]. unfold isz. change (0 =? 0) with true. cbv iota. rewrite app_nil_r.
        rewrite (frames_unfold ((x :: p) ++ [0])). unfold take_frame.
        rewrite strip0_zf_app by (auto; discriminate). rewrite cut0_zf_app by exact Hz.
        cbn [cut0]. unfold isz. change (0 =? 0) with true. cbv iota. rewrite app_nil_r.
        rewrite frames_nil. destruct (frames b) as [fb tb]. reflexivity.
Qed.

(* C16, second sentence, for damage whose zero-free runs stay within the buffer
   limits: whatever precedes a delimiter produces one result per damaged
   segment and every frame after the delimiter is delivered intact *)
Theorem resync_bounded blen maxlen junk fs chunks :
  (0 < blen)%nat ->
  Forall (frame_ok blen maxlen) fs ->
  Forall (fun s => (length s < blen)%nat /\ (length s <= maxlen)%nat) (fst (frames (junk ++ [0]))) ->
  concat chunks = junk ++ 0 :: concat (map write fs) ->
  reads_all blen maxlen chunks =
    map (seg_result blen) (fst (frames (junk ++ [0]))) ++ map RFrame fs ++ [RErr 9].
Proof.
  intros Hb Hok Hj Hc. unfold reads_all.
  assert (Hbytes : Forall (fun f => Forall (fun b => b < 256) f) fs).
  { eapply Forall_impl; [|exact Hok]. intros f (_ & H & _). exact H. }
  assert (HF : frames (junk ++ 0 :: concat (map write fs)) =
               (fst (frames (junk ++ [0])) ++ map enc_body fs, [])).
  { rewrite (frames_app0 (length junk)) by lia. rewrite frames_writes by exact Hbytes. reflexivity. }
  rewrite (reads_frames blen maxlen (Nat.min (blen - 1) maxlen)); try lia.
  - cbn [app]. rewrite Hc, HF. cbn [fst]. rewrite map_app.
    rewrite (map_seg_result_ok blen maxlen) by exact Hok. rewrite <- app_assoc. reflexivity.
  - cbn [app]. rewrite Hc, HF. split; cbn [fst snd length]; [|lia].
    apply Forall_app. split.
    + eapply Forall_impl; [|exact Hj]. cbn. intros; lia.
    + apply Forall_map. eapply Forall_impl; [|exact Hok]. intros f (_ & _ & H1 & H2).
      rewrite encode_length in H1, H2. lia.
  - apply reads_fuel_enough.
Qed.

(* ================= resynchronisation after arbitrary damage ================= *)
Definition allz (l : list N) := Forall (fun b => b = 0) l.

Lemma strip0_split l : exists z, allz z /\ l = z ++ strip0 l.
Proof.
  induction l as [|b l (z & Hz & Hl)]; [exists []; split; [constructor|reflexivity]|].
  cbn [strip0]. unfold isz. destruct (b =? 0) eqn:E.
  - apply N.eqb_eq in E. subst b. exists (0 :: z). split; [constructor; auto|]. cbn. f_equal. exact Hl.
  - exists []. split; [constructor|reflexivity].
Qed.

Lemma cut0_split l f r : cut0 l = Some (f, r) -> l = f ++ 0 :: r /\ zf f.
Proof.
  revert f r. induction l as [|b l IH]; cbn; intros f r H; [discriminate|].
  unfold isz in H. destruct (b =? 0) eqn:E.
  - apply N.eqb_eq in E. inversion H; subst. split; [reflexivity|constructor].
  - destruct (cut0 l) as [[f' r']|]; [|discriminate]. inversion H; subst.
    destruct (IH _ _ eq_refl) as [-> Hz]. split; [reflexivity|]. constructor; [apply N.eqb_neq; exact E|exact Hz].
Qed.

Lemma allz_strip0 l : allz l -> strip0 l = [].
Proof. induction 1 as [|b l Hb _ IH]; [reflexivity|]. subst b. cbn. exact IH. Qed.

Lemma strip0_nil_allz l : strip0 l = [] -> allz l.
Proof.
  induction l as [|b l IH]; intros H; [constructor|]. cbn in H. unfold isz in H.
  destruct (b =? 0) eqn:E; [|discriminate]. apply N.eqb_eq in E. constructor; [exact E|apply IH; exact H].
Qed.

(* a zero found inside zeros-then-zero-free must lie in the zeros *)
Lemma zeros_zf_eq z seg junk m : allz z -> zf seg -> z ++ seg = junk ++ 0 :: m -> allz junk.
Proof.
  intros Hz Hs. revert junk. induction Hz as [|b z Hb Hz IH]; intros junk H; cbn in H.
  - exfalso. assert (In 0 seg) by (rewrite H; apply in_or_app; right; left; reflexivity).
    unfold zf in Hs. rewrite Forall_forall in Hs. specialize (Hs 0 H0). congruence.
  - destruct junk as [|a junk]; [constructor|]. cbn in H. inversion H; subst. constructor; [reflexivity|]. apply IH. assumption.
Qed.

Lemma zeros_prefix z A junk B : allz z -> z ++ A = junk ++ B -> strip0 junk <> [] ->
  exists j1, junk = z ++ j1 /\ A = j1 ++ B /\ strip0 j1 = strip0 junk.
Proof.
  intros Hz. revert junk. induction Hz as [|b z Hb Hz IH]; intros junk H Hn; cbn in H.
  - exists junk. auto.
  - destruct junk as [|a junk]; [contradiction|]. cbn in H. inversion H; subst a. subst b.
    cbn [strip0] in Hn. unfold isz in Hn. change (0 =? 0) with true in Hn. cbv iota in Hn.
    destruct (IH junk H2 Hn) as (j1 & -> & HA & Hs). exists j1. repeat split; auto.
Qed.

Lemma guard_pos blen maxlen s : (0 < blen)%nat -> guard_fires blen maxlen s = true -> (0 < length s)%nat.
Proof.
  intros Hb H. unfold guard_fires in H. destruct s as [|a s]; [|cbn; lia]. exfalso. cbn [length] in H.
  apply orb_prop in H as [H|H]; [apply Nat.leb_le in H; lia|apply Nat.ltb_lt in H; lia].
Qed.

Section Resync.
Variables blen maxlen : nat.
Variable fs : list (list N).
Hypothesis Hb : (0 < blen)%nat.
Hypothesis Hok : Forall (frame_ok blen maxlen) fs.

Let S := concat (map write fs).
Let L := Nat.min (blen - 1) maxlen.

Lemma HbytesR : Forall (fun f => Forall (fun b => b < 256) f) fs.
Proof. eapply Forall_impl; [|exact Hok]. intros f (_ & H & _). exact H. Qed.

Lemma bounded_S : bounded L (frames S).
Proof.
  unfold S. rewrite frames_writes by exact HbytesR. split; cbn [fst snd length]; [|lia].
  apply Forall_map. eapply Forall_impl; [|exact Hok]. intros f (_ & _ & H1 & H2).
  rewrite encode_length in H1, H2. unfold L. lia.
Qed.

Lemma frames_zeros j : allz j -> frames (j ++ 0 :: S) = frames S.
Proof.
  intros Hj. rewrite <- frames_strip. rewrite strip0_app_all0 by (apply allz_strip0; exact Hj).
  cbn [strip0]. unfold isz. change (0 =? 0) with true. cbv iota. apply frames_strip.
Qed.

(* the stream is zeros, a delimiter, then the written frames: exactly the frames come out *)
Lemma reads_zeros_S fuel lo chunks j :
  lo ++ concat chunks = j ++ 0 :: S -> allz j ->
  (length lo + length (concat chunks) + length chunks < fuel)%nat ->
  reads blen maxlen fuel lo chunks = map RFrame fs ++ [RErr 9].
Proof.
  intros Heq Hj Hf.
  assert (HL1 : (L < blen)%nat) by (unfold L; lia).
  assert (HL2 : (L <= maxlen)%nat) by (unfold L; lia).
  assert (HB : bounded L (frames (lo ++ concat chunks))) by (rewrite Heq, (frames_zeros j Hj); exact bounded_S).
  rewrite (reads_frames blen maxlen L HL1 HL2 fuel lo chunks HB Hf).
  rewrite Heq, (frames_zeros j Hj). unfold S. rewrite frames_writes by exact HbytesR. cbn [fst].
  rewrite (map_seg_result_ok blen maxlen) by exact Hok. reflexivity.
Qed.

Lemma reads_S fuel lo chunks :
  lo ++ concat chunks = S ->
  (length lo + length (concat chunks) + length chunks < fuel)%nat ->
  reads blen maxlen fuel lo chunks = map RFrame fs ++ [RErr 9].
Proof.
  intros Heq Hf.
  assert (HL1 : (L < blen)%nat) by (unfold L; lia).
  assert (HL2 : (L <= maxlen)%nat) by (unfold L; lia).
  assert (HB : bounded L (frames (lo ++ concat chunks))) by (rewrite Heq; exact bounded_S).
  rewrite (reads_frames blen maxlen L HL1 HL2 fuel lo chunks HB Hf).
  rewrite Heq. unfold S. rewrite frames_writes by exact HbytesR. cbn [fst].
  rewrite (map_seg_result_ok blen maxlen) by exact Hok. reflexivity.
Qed.

(* a delimiter, then the frames, after a remainder j of damage (all zeros or not) *)
Definition tail_goal fuel lo chunks := exists pre, reads blen maxlen fuel lo chunks = pre ++ map RFrame fs ++ [RErr 9].

Theorem resync_any : forall fuel lo chunks junk,
  lo ++ concat chunks = junk ++ 0 :: S ->
  (length lo + length (concat chunks) + length chunks < fuel)%nat ->
  tail_goal fuel lo chunks.
Proof.
  induction fuel as [|fuel IH]; intros lo chunks junk Heq Hf; [lia|].
  destruct (strip0 junk) as [|x0 xs] eqn:Ej.
  { exists []. apply (reads_zeros_S _ _ _ junk Heq); [apply strip0_nil_allz; exact Ej|exact Hf]. }
  assert (Hjn : strip0 junk <> []) by (rewrite Ej; discriminate).
  unfold tail_goal. cbn [reads].
  destruct (strip0_split lo) as (z & Hz & Hlo).
  destruct (take_frame lo) as [[seg rest]|] eqn:E.
  - (* a complete segment is returned; it lies inside the damage *)
    unfold take_frame in E. destruct (cut0_split _ _ _ E) as [Hs Hzf].
    pose proof (take_frame_len lo seg rest E) as Hlen.
    assert (Hstream : (z ++ seg) ++ 0 :: (rest ++ concat chunks) = junk ++ 0 :: S).
    { rewrite <- Heq, Hlo at 1. rewrite Hs. rewrite <- !app_assoc. reflexivity. }
    apply app_eq_app in Hstream as (m & [[H1 H2]|[H1 H2]]).
    + (* z ++ seg = junk ++ m *)
      destruct m as [|a m].
      * rewrite app_nil_r in H1. cbn in H2. inversion H2 as [H3].
        exists [seg_result blen seg]. cbn [app]. f_equal. apply reads_S; [symmetry; exact H3|lia].
      * cbn in H2. inversion H2; subst a. exfalso.
        pose proof (zeros_zf_eq z seg junk m Hz Hzf H1) as Hall. apply allz_strip0 in Hall. congruence.
    + (* junk = z ++ seg ++ m *)
      destruct m as [|a m].
      * cbn in H2. inversion H2 as [H3].
        exists [seg_result blen seg]. cbn [app]. f_equal. apply reads_S; [exact H3|lia].
      * cbn in H2. inversion H2 as [[Ha H3]]. subst a.
        destruct (IH rest chunks m H3) as (pre & Hpre); [lia|].
        exists (seg_result blen seg :: pre). cbn [app]. f_equal. exact Hpre.
  - (* no complete segment buffered *)
    assert (Hstream : z ++ (strip0 lo ++ concat chunks) = junk ++ 0 :: S) by (rewrite app_assoc, <- Hlo; exact Heq).
    destruct (zeros_prefix z _ junk _ Hz Hstream Hjn) as (j1 & Hj & HA & Hs1).
    destruct (guard_fires blen maxlen (strip0 lo)) eqn:EG.
    + (* the buffered damage is discarded *)
      unfold take_frame in E. pose proof (cut0_none_zf _ E) as Hzf.
      assert (Hs2 : strip0 lo ++ concat chunks = j1 ++ 0 :: S) by exact HA.
      apply app_eq_app in Hs2 as (m & [[H1 H2]|[H1 H2]]).
      * destruct m as [|a m].
        -- cbn in H2. exists [RErr 2]. cbn [app]. f_equal.
           apply (reads_zeros_S _ _ _ []); [cbn; symmetry; exact H2|constructor|].
           pose proof (strip0_len lo). pose proof (guard_pos blen maxlen _ Hb EG). cbn [length]. lia.
        -- cbn in H2. inversion H2; subst a. exfalso.
           assert (allz j1) by (apply (zeros_zf_eq [] (strip0 lo) j1 m); [constructor|exact Hzf|exact H1]).
           apply allz_strip0 in H. rewrite Hs1 in H. congruence.
      * (* j1 = strip0 lo ++ m, chunks carry m ++ 0 :: S *)
        pose proof (guard_pos blen maxlen _ Hb EG) as Hlen.
        pose proof (strip0_len lo).
        destruct (IH [] chunks m) as (pre & Hpre); [cbn; exact H2|cbn [length]; lia|].
        exists (RErr 2 :: pre). cbn [app]. f_equal. exact Hpre.
    + destruct chunks as [|c cs].
      * (* the device script cannot end inside the damage: the frames follow *)
        exfalso. cbn [concat] in HA. rewrite app_nil_r in HA.
        unfold take_frame in E. pose proof (cut0_none_zf _ E) as Hzf.
        assert (allz j1) by (apply (zeros_zf_eq [] (strip0 lo) j1 S); [constructor|exact Hzf|exact HA]).
        apply allz_strip0 in H. rewrite Hs1 in H. congruence.
      * cbn [concat] in HA, Hf. 
        destruct (IH (strip0 lo ++ c) cs j1) as (pre & Hpre).
        -- rewrite <- app_assoc. exact HA.
        -- pose proof (strip0_len lo). cbn [length] in Hf. rewrite !app_length in *. lia.
        -- exists pre. exact Hpre.
Qed.

(* C16, second sentence: whatever bytes [junk] precede a delimiter (corrupted, lost or inserted
   bytes of earlier frames, of any length), for every segmentation into device reads the results
   end with exactly the frames written after that delimiter, intact, in order, each once *)
Theorem resync blen' junk chunks :
  blen' = blen ->
  concat chunks = junk ++ 0 :: S ->
  exists pre, reads_all blen maxlen chunks = pre ++ map RFrame fs ++ [RErr 9].
Proof.
  intros _ Hc. unfold reads_all. apply (resync_any _ [] chunks junk); [cbn; exact Hc|apply reads_fuel_enough].
Qed.
End Resync.
