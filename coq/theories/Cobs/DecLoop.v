(* C16: the frame decoder as the loop that client/cobs-wrapper.go runs (cobsDecodeInplace: one pass over the buffer,
   the decoded bytes written back into the part of the buffer that has been read) is the decoder of Cobs/Model.v
   ([decode_inplace] / [decode] / [dec], the functions the C16 theorems are about).  [dstep] is one iteration of the Go
   loop as a function (bytes as Z, as the evaluator of the printed function has them); the invariant: the buffer is the
   output so far, then cells already read and free, then the input not yet read. *)
From Coq Require Import ZArith NArith List Bool Lia String.
From Verif Require Import Base.Bytes Cobs.Model MiniGo.Slice.
Import ListNotations.
Local Open Scope Z_scope.

Record dst := { d_fs : bool; d_o : nat; d_off : Z; d_ioff : Z; d_B : list Z }.
Inductive dres := DCont (s : dst) | DRet (n : Z) (err : string) (B : list Z).

Definition err_decode : string := "ErrCobsDecodeError".

Definition dstep (s : dst) (k : nat) : dres :=
  let bcur := nth k (d_B s) 0 in
  if negb (d_fs s) then
    if bcur =? 0 then DCont s
    else DCont {| d_fs := true; d_o := d_o s; d_off := bcur; d_ioff := 0; d_B := d_B s |}
  else
    let ioff' := (d_ioff s + 1) mod 2 ^ 8 in
    if ioff' =? d_off s then
      if bcur =? 0 then DRet (Z.of_nat (d_o s)) "" (d_B s)
      else if negb (d_off s =? 255)
           then DCont {| d_fs := true; d_o := S (d_o s); d_off := bcur; d_ioff := 0; d_B := upd_nat (d_B s) (d_o s) 0 |}
           else DCont {| d_fs := true; d_o := d_o s; d_off := bcur; d_ioff := 0; d_B := d_B s |}
    else
      if bcur =? 0 then DRet 0 err_decode (d_B s)
      else DCont {| d_fs := true; d_o := S (d_o s); d_off := d_off s; d_ioff := ioff'; d_B := upd_nat (d_B s) (d_o s) bcur |}.

(* n iterations from index k; a run off the end returns the output count and no error *)
Fixpoint dloop (n : nat) (k : nat) (s : dst) : Z * string * list Z :=
  match n with
  | O => (Z.of_nat (d_o s), ""%string, d_B s)
  | S n' =>
      match dstep s k with
      | DCont s' => dloop n' (S k) s'
      | DRet r e B => (r, e, B)
      end
  end.

Definition zN (l : list N) : list Z := map Z.of_N l.

Definition ok_result (p : option (list N)) (r : Z * string * list Z) : Prop :=
  let '(n, e, B) := r in
  match p with
  | Some f => e = ""%string /\ n = Z.of_nat (List.length f) /\ firstn (List.length f) B = zN f
  | None => e = err_decode /\ n = 0
  end.

Lemma nth_at {A} (X : list A) c Y d : nth (List.length X) (X ++ c :: Y) d = c.
Proof. induction X as [|x X IH]; [reflexivity|exact IH]. Qed.
Lemma upd_nat_at X c Y v : upd_nat (X ++ c :: Y) (List.length X) v = X ++ v :: Y.
Proof. induction X as [|x X IH]; [reflexivity|]. cbn [app List.length upd_nat]. now rewrite IH. Qed.
Lemma firstn_at {A} (X Y : list A) : firstn (List.length X) (X ++ Y) = X.
Proof. induction X as [|x X IH]; [reflexivity|]. cbn [app List.length firstn]. now rewrite IH. Qed.

(* writing at the output position: the first free-or-current cell is taken *)
Lemma write_out (O M : list Z) b (L : list Z) v :
  exists M', upd_nat (O ++ M ++ b :: L) (List.length O) v = (O ++ [v]) ++ M' ++ L /\ List.length M' = List.length M.
Proof.
  destruct M as [|m M1].
  - exists []. cbn [app]. rewrite upd_nat_at. rewrite <- app_assoc. split; reflexivity.
  - exists (M1 ++ [b]). cbn [app]. rewrite upd_nat_at. rewrite <- !app_assoc. cbn [app]. split; [reflexivity|].
    rewrite app_length. cbn [List.length]. lia.
Qed.

Definition byteN (b : N) : Prop := (b < 256)%N.

Lemma eqb_of_N a b : (Z.of_N a =? Z.of_N b) = (a =? b)%N.
Proof. destruct (N.eqb_spec a b) as [->|Hn]; [apply Z.eqb_refl|]. apply Z.eqb_neq. lia. Qed.

(* the phase after the start byte *)
Lemma found_phase : forall l out M off ioff,
  Forall byteN l -> (ioff < off)%N -> (off <= 255)%N ->
  ok_result (dec off ioff out l)
    (dloop (List.length l) (List.length (rev out) + List.length M)
       {| d_fs := true; d_o := List.length (rev out); d_off := Z.of_N off; d_ioff := Z.of_N ioff;
          d_B := zN (rev out) ++ M ++ zN l |}).
Proof.
  induction l as [|b l IH]; intros out M off ioff Hok Hio Hoff.
  - cbn [dec List.length dloop d_o d_B ok_result]. unfold zN at 2. cbn [map]. rewrite app_nil_r.
    repeat split. rewrite <- (map_length Z.of_N (rev out)). apply firstn_at.
  - inversion Hok as [|? ? Hb Hok']; subst. unfold byteN in Hb.
    cbn [List.length dloop]. unfold dstep. cbn [d_fs d_o d_off d_ioff d_B negb].
    change (zN (b :: l)) with (Z.of_N b :: zN l).
    assert (Hn : nth (List.length (rev out) + List.length M) (zN (rev out) ++ M ++ Z.of_N b :: zN l) 0 = Z.of_N b).
    { rewrite app_assoc. rewrite <- (map_length Z.of_N (rev out)). fold (zN (rev out)). rewrite <- app_length. apply nth_at. }
    rewrite Hn.
    assert (Hm : (Z.of_N ioff + 1) mod 2 ^ 8 = Z.of_N (ioff + 1)).
    { change (2 ^ 8) with 256. rewrite Z.mod_small by lia. lia. }
    rewrite Hm, eqb_of_N. change 0 with (Z.of_N 0). rewrite eqb_of_N. change 255 with (Z.of_N 255). rewrite eqb_of_N.
    cbn [dec].
    destruct (N.eqb_spec (ioff + 1) off) as [He|Hne].
    + destruct (N.eqb_spec b 0) as [Hz|Hnz].
      * cbn [ok_result]. repeat split. rewrite <- (map_length Z.of_N (rev out)). apply firstn_at.
      * destruct (N.eqb_spec off 255) as [Hf|Hnf]; cbn [negb].
        -- (* a full block: no zero is implied *)
           specialize (IH out (M ++ [Z.of_N b]) b 0%N Hok' ltac:(lia) ltac:(lia)).
           rewrite app_length in IH. cbn [List.length] in IH.
           replace (S (List.length (rev out) + List.length M)) with (List.length (rev out) + (List.length M + 1))%nat by lia.
           rewrite <- app_assoc in IH. cbn [app] in IH. exact IH.
        -- destruct (write_out (zN (rev out)) M (Z.of_N b) (zN l) (Z.of_N 0)) as [M' [Hw HM']].
           assert (HlO : List.length (zN (rev out)) = List.length (rev out)) by apply map_length.
           rewrite HlO in Hw. rewrite Hw.
           specialize (IH (0%N :: out) M' b 0%N Hok' ltac:(lia) ltac:(lia)).
           cbn [rev] in IH. unfold zN in IH at 1. rewrite map_app in IH. cbn [map] in IH. fold (zN (rev out)) in IH.
           rewrite app_length in IH. cbn [List.length] in IH. rewrite HM' in IH.
           replace (S (List.length (rev out) + List.length M)) with (List.length (rev out) + 1 + List.length M)%nat by lia.
           replace (S (List.length (rev out))) with (List.length (rev out) + 1)%nat by lia. exact IH.
    + destruct (N.eqb_spec b 0) as [Hz|Hnz].
      * cbn [ok_result]. split; reflexivity.
      * destruct (write_out (zN (rev out)) M (Z.of_N b) (zN l) (Z.of_N b)) as [M' [Hw HM']].
        assert (HlO : List.length (zN (rev out)) = List.length (rev out)) by apply map_length.
        rewrite HlO in Hw. rewrite Hw.
        specialize (IH (b :: out) M' off (ioff + 1)%N Hok' ltac:(lia) Hoff).
        cbn [rev] in IH. unfold zN in IH at 1. rewrite map_app in IH. cbn [map] in IH. fold (zN (rev out)) in IH.
        rewrite app_length in IH. cbn [List.length] in IH. rewrite HM' in IH.
        replace (S (List.length (rev out) + List.length M)) with (List.length (rev out) + 1 + List.length M)%nat by lia.
        replace (S (List.length (rev out))) with (List.length (rev out) + 1)%nat by lia. exact IH.
Qed.

(* the phase before the start byte: leading delimiters are skipped *)
Lemma start_phase : forall l M, Forall byteN l ->
  ok_result (decode l)
    (dloop (List.length l) (List.length M) {| d_fs := false; d_o := 0; d_off := 0; d_ioff := 0; d_B := M ++ zN l |}).
Proof.
  induction l as [|b l IH]; intros M Hok.
  - cbn. repeat split.
  - inversion Hok as [|? ? Hb Hok']; subst. unfold byteN in Hb.
    cbn [List.length dloop]. unfold dstep. cbn [d_fs d_o d_off d_ioff d_B negb].
    change (zN (b :: l)) with (Z.of_N b :: zN l). rewrite nth_at. change 0 with (Z.of_N 0) at 1. rewrite eqb_of_N. cbn [decode].
    destruct (N.eqb_spec b 0) as [Hz|Hnz].
    + specialize (IH (M ++ [Z.of_N b]) Hok'). rewrite app_length in IH. cbn [List.length] in IH.
      rewrite <- app_assoc in IH. cbn [app] in IH. replace (S (List.length M)) with (List.length M + 1)%nat by lia. exact IH.
    + pose proof (found_phase l [] (M ++ [Z.of_N b]) b 0%N Hok' ltac:(lia) ltac:(lia)) as HF.
      cbn [rev List.length app zN map] in HF. rewrite app_length in HF. cbn [List.length] in HF.
      rewrite <- app_assoc in HF. cbn [app] in HF. replace (S (List.length M)) with (List.length M + 1)%nat by lia. exact HF.
Qed.

Theorem dloop_is_decode b : Forall byteN b ->
  ok_result (decode b) (dloop (List.length b) 0 {| d_fs := false; d_o := 0; d_off := 0; d_ioff := 0; d_B := zN b |}).
Proof. intros Hok. exact (start_phase b [] Hok). Qed.
