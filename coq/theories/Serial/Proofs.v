(* C17: proofs about the model of SerialEncode / SerialDecode and the CRC
   (round trip, linearity, the codeword lemma, detection of the stated error
   classes).  The proof core follows DESIGN.md Appendix A.6. *)
From Coq Require Import Ndigits ZifyN ZifyNat ZifyBool.
From Verif Require Import Base.Bytes Serial.Model.
Local Open Scope N_scope.
Ltac Zify.zify_post_hook ::= Z.div_mod_to_equations.

(* ====================================================================== *)
(* 1. finite sweeps                                                         *)
(* ====================================================================== *)

Fixpoint all_from (f : N -> bool) (i : N) (fuel : nat) : bool :=
  match fuel with
  | O => true
  | S k => f i && all_from f (i + 1) k
  end.

Lemma all_from_spec f : forall fuel i, all_from f i fuel = true ->
  forall j, i <= j -> j < i + N.of_nat fuel -> f j = true.
Proof.
  induction fuel as [|k IH]; intros i H j Hij Hj.
  - lia.
  - cbn [all_from] in H. apply andb_true_iff in H as [H0 H1].
    destruct (N.eq_dec i j) as [->|Hne]; [exact H0|].
    apply (IH (i + 1)); [exact H1|lia|lia].
Qed.

Lemma all_below_16 (f : N -> bool) :
  all_from f 0 (N.to_nat 65536) = true -> forall s, s < 65536 -> f s = true.
Proof.
  intros H s Hs. apply (all_from_spec f _ 0 H); [lia|].
  rewrite N2Nat.id. lia.
Qed.

(* the register stays below 2^16 *)
Notation step_bound_b := (fun s : N => (step s false <? 65536) && (step s true <? 65536)).
Lemma step_bound_sweep : all_from step_bound_b 0 (N.to_nat 65536) = true.
Proof. vm_compute. reflexivity. Qed.

Lemma step_bound s b : s < 65536 -> step s b < 65536.
Proof.
  intros Hs. pose proof (all_below_16 _ step_bound_sweep s Hs) as H.
  cbv beta in H. apply andb_true_iff in H as [H0 H1].
  destruct b; [apply N.ltb_lt in H1|apply N.ltb_lt in H0]; assumption.
Qed.

Lemma run_bound : forall bs s, s < 65536 -> run s bs < 65536.
Proof.
  induction bs as [|b bs IH]; intros s Hs; cbn; [exact Hs|].
  apply IH, step_bound, Hs.
Qed.

(* a zero input bit maps non-zero states to non-zero states *)
Notation zstep_inj_b := (fun s : N => (s =? 0) || negb (step s false =? 0)).
Lemma zstep_sweep : all_from zstep_inj_b 0 (N.to_nat 65536) = true.
Proof. vm_compute. reflexivity. Qed.

Lemma zstep_nonzero s : s < 65536 -> s <> 0 -> step s false <> 0.
Proof.
  intros Hs Hnz. pose proof (all_below_16 _ zstep_sweep s Hs) as H.
  cbv beta in H. apply orb_true_iff in H as [H|H].
  - apply N.eqb_eq in H. contradiction.
  - apply negb_true_iff, N.eqb_neq in H. exact H.
Qed.

Lemma run_zeros_nonzero : forall c s, s < 65536 -> s <> 0 -> run s (repeat false c) <> 0.
Proof.
  induction c as [|c IH]; intros s Hs Hnz; cbn; [exact Hnz|].
  apply IH; [apply step_bound, Hs|apply zstep_nonzero; assumption].
Qed.

Lemma run_zeros_zero : forall a, run 0 (repeat false a) = 0.
Proof. induction a as [|a IH]; cbn; [reflexivity|exact IH]. Qed.

Lemma run_app s a b : run s (a ++ b) = run (run s a) b.
Proof. unfold run. apply fold_left_app. Qed.

(* feeding a register its own 16 bits, least significant first, empties it *)
Notation self_cancel_b := (fun s : N => run s (bits_of 16 s) =? 0).
Lemma self_cancel_sweep : all_from self_cancel_b 0 (N.to_nat 65536) = true.
Proof. vm_compute. reflexivity. Qed.

Lemma self_cancel s : s < 65536 -> run s (bits_of 16 s) = 0.
Proof.
  intros Hs. pose proof (all_below_16 _ self_cancel_sweep s Hs) as H.
  cbv beta in H. apply N.eqb_eq in H. exact H.
Qed.

(* every non-zero window of 16 bits leaves a non-zero register *)
Notation window_b := (fun w : N => (w =? 0) || negb (run 0 (bits_of 16 w) =? 0)).
Lemma sweep16_ok : all_from window_b 0 (N.to_nat 65536) = true.
Proof. vm_compute. reflexivity. Qed.

Lemma window_nonzero w : w < 65536 -> w <> 0 -> run 0 (bits_of 16 w) <> 0.
Proof.
  intros Hw Hnz. pose proof (all_below_16 _ sweep16_ok w Hw) as H.
  cbv beta in H. apply orb_true_iff in H as [H|H].
  - apply N.eqb_eq in H. contradiction.
  - apply negb_true_iff, N.eqb_neq in H. exact H.
Qed.

(* x^k <> 1 (mod g) for 0 < k < 32767: a set bit, k-1 unset bits, a set bit
   never return the register to 0 *)
Fixpoint order_sweep (fuel : nat) (s : N) : bool :=
  match fuel with
  | O => true
  | S k => negb (step s true =? 0) && order_sweep k (step s false)
  end.

Lemma order_ok : order_sweep (N.to_nat 32766) (step 0 true) = true.
Proof. vm_compute. reflexivity. Qed.

Lemma order_sweep_spec : forall fuel s, order_sweep fuel s = true ->
  forall j, (j < fuel)%nat -> step (run s (repeat false j)) true <> 0.
Proof.
  induction fuel as [|k IH]; intros s H j Hj; [lia|].
  cbn [order_sweep] in H. apply andb_true_iff in H as [H0 H1].
  destruct j as [|j]; cbn.
  - apply negb_true_iff, N.eqb_neq in H0. exact H0.
  - apply IH; [exact H1|lia].
Qed.

Lemma double_bit_nonzero j : N.of_nat j < 32766 ->
  run 0 (true :: repeat false j ++ [true]) <> 0.
Proof.
  intros Hj. cbn [run fold_left]. fold (run (step 0 true) (repeat false j ++ [true])).
  rewrite run_app. cbn.
  apply (order_sweep_spec _ _ order_ok). lia.
Qed.

(* ====================================================================== *)
(* 2. linearity                                                             *)
(* ====================================================================== *)

Lemma step_lin s1 s2 b1 b2 :
  step (N.lxor s1 s2) (xorb b1 b2) = N.lxor (step s1 b1) (step s2 b2).
Proof.
  unfold step.
  assert (L4: forall a b c d, N.lxor (N.lxor a b) (N.lxor c d) = N.lxor (N.lxor a c) (N.lxor b d)).
  { intros. rewrite !N.lxor_assoc. f_equal. rewrite <- !N.lxor_assoc. f_equal. apply N.lxor_comm. }
  assert (B: N.b2n (xorb b1 b2) = N.lxor (N.b2n b1) (N.b2n b2)) by (destruct b1, b2; reflexivity).
  assert (E: N.lxor (N.lxor s1 s2) (N.b2n (xorb b1 b2)) =
             N.lxor (N.lxor s1 (N.b2n b1)) (N.lxor s2 (N.b2n b2))).
  { rewrite B. apply L4. }
  rewrite E. set (x := N.lxor s1 (N.b2n b1)). set (y := N.lxor s2 (N.b2n b2)).
  rewrite Nxor_bit0, N.shiftr_lxor.
  destruct (N.odd x), (N.odd y); cbn [xorb].
  - rewrite N.lxor_assoc, (N.lxor_comm poly), !N.lxor_assoc, N.lxor_nilpotent, N.lxor_0_r. reflexivity.
  - rewrite !N.lxor_assoc. f_equal. apply N.lxor_comm.
  - rewrite !N.lxor_assoc. reflexivity.
  - reflexivity.
Qed.

Fixpoint xorl (a b : list bool) : list bool :=
  match a, b with
  | x :: a', y :: b' => xorb x y :: xorl a' b'
  | _, _ => []
  end.

Lemma run_lin : forall a b s1 s2, length a = length b ->
  run (N.lxor s1 s2) (xorl a b) = N.lxor (run s1 a) (run s2 b).
Proof.
  induction a as [|x a IH]; intros [|y b] s1 s2 H; try discriminate; cbn; [reflexivity|].
  rewrite step_lin. apply IH. cbn in H. lia.
Qed.

(* the CRC of the bit-wise sum is the sum of the CRCs *)
Lemma crc_linear a b : length a = length b ->
  run 0 (xorl a b) = N.lxor (run 0 a) (run 0 b).
Proof. intros H. rewrite <- (run_lin a b 0 0 H). reflexivity. Qed.

Lemma xorl_app : forall a b c d, length a = length c ->
  xorl (a ++ b) (c ++ d) = xorl a c ++ xorl b d.
Proof.
  induction a as [|x a IH]; intros b [|y c] d H; try discriminate; cbn; [reflexivity|].
  f_equal. apply IH. cbn in H. lia.
Qed.

Lemma bits_of_length n : forall x, length (bits_of n x) = n.
Proof. induction n as [|n IH]; intros x; cbn; [reflexivity|]. rewrite IH. reflexivity. Qed.

Lemma bits_of_lxor n : forall x y, bits_of n (N.lxor x y) = xorl (bits_of n x) (bits_of n y).
Proof.
  induction n as [|n IH]; intros x y; cbn [bits_of xorl]; [reflexivity|].
  rewrite Nxor_bit0. f_equal.
  rewrite !N.div2_spec, N.shiftr_lxor. apply IH.
Qed.

Lemma bits_length : forall d, length (bits d) = (8 * length d)%nat.
Proof.
  induction d as [|x d IH]; [reflexivity|].
  unfold bits in *. cbn [flat_map]. rewrite app_length, bits_of_length, IH. cbn [length]. lia.
Qed.

Lemma bits_app a b : bits (a ++ b) = bits a ++ bits b.
Proof. unfold bits. apply flat_map_app. Qed.

Lemma xor_bytes_length : forall a e, length (xor_bytes a e) = length a.
Proof.
  induction a as [|x a IH]; intros [|y e]; cbn; try reflexivity. rewrite IH. reflexivity.
Qed.

Lemma bits_xor_bytes : forall a e, length a = length e ->
  bits (xor_bytes a e) = xorl (bits a) (bits e).
Proof.
  induction a as [|x a IH]; intros [|y e] H; try discriminate; [reflexivity|].
  cbn [xor_bytes]. unfold bits in *. cbn [flat_map].
  rewrite xorl_app by (rewrite !bits_of_length; reflexivity).
  rewrite bits_of_lxor. f_equal. apply IH. cbn in H. lia.
Qed.

(* ====================================================================== *)
(* 3. the codeword lemma                                                    *)
(* ====================================================================== *)

Lemma crc16_bound d : crc16 d < 65536.
Proof. unfold crc16. apply run_bound. lia. Qed.

Lemma bits_of_split : forall n m x,
  bits_of (n + m) x = bits_of n x ++ bits_of m (N.shiftr x (N.of_nat n)).
Proof.
  induction n as [|n IH]; intros m x.
  - reflexivity.
  - cbn [Nat.add bits_of app]. f_equal. rewrite IH. f_equal. f_equal.
    rewrite N.div2_spec, N.shiftr_shiftr. f_equal. lia.
Qed.

Lemma bits_of_mod : forall n x, bits_of n (x mod 2 ^ N.of_nat n) = bits_of n x.
Proof.
  induction n as [|n IH]; intros x; [reflexivity|].
  cbn [bits_of]. f_equal.
  - rewrite <- !N.bit0_odd. rewrite N.mod_pow2_bits_low by lia. reflexivity.
  - rewrite <- (IH (N.div2 x)). rewrite <- (IH (N.div2 (x mod 2 ^ N.of_nat (S n)))). f_equal.
    rewrite !N.div2_spec.
    apply N.bits_inj. intros k.
    destruct (N.lt_ge_cases k (N.of_nat n)) as [Hk|Hk].
    + rewrite !N.mod_pow2_bits_low by lia. rewrite !N.shiftr_spec by lia.
      rewrite N.mod_pow2_bits_low by lia. reflexivity.
    + rewrite !N.mod_pow2_bits_high by lia. reflexivity.
Qed.

(* the two bytes of the little-endian trailer carry the 16 register bits in order *)
Lemma bits_le16 lo hi : lo < 256 -> bits [lo; hi] = bits_of 16 (of_le16 lo hi).
Proof.
  intros Hlo. unfold bits, of_le16. cbn [flat_map]. rewrite app_nil_r.
  change 16%nat with (8 + 8)%nat. rewrite bits_of_split.
  f_equal.
  - rewrite <- (bits_of_mod 8 (lo + 256 * hi)). f_equal.
    change (2 ^ N.of_nat 8) with 256. lia.
  - f_equal. rewrite N.shiftr_div_pow2. change (2 ^ N.of_nat 8) with 256. lia.
Qed.

Lemma of_le16_le16 c : c < 65536 -> (let '(lo, hi) := (c mod 256, (c / 256) mod 256) in of_le16 lo hi) = c.
Proof. intros H. unfold of_le16. lia. Qed.

Lemma bits_le16_crc c : c < 65536 -> bits (le16 c) = bits_of 16 c.
Proof.
  intros H. unfold le16. rewrite bits_le16 by lia. f_equal. unfold of_le16. lia.
Qed.

Lemma lxor_bound16 a b : a < 65536 -> b < 65536 -> N.lxor a b < 65536.
Proof.
  intros Ha Hb. destruct (N.eq_dec (N.lxor a b) 0) as [->|Hnz]; [lia|].
  change 65536 with (2 ^ 16). apply N.log2_lt_pow2; [lia|].
  pose proof (N.log2_lxor a b) as H.
  assert (La: N.log2 a < 16).
  { destruct (N.eq_dec a 0) as [->|Hz]; [cbn; lia|]. apply N.log2_lt_pow2; [lia|exact Ha]. }
  assert (Lb: N.log2 b < 16).
  { destruct (N.eq_dec b 0) as [->|Hz]; [cbn; lia|]. apply N.log2_lt_pow2; [lia|exact Hb]. }
  lia.
Qed.

Lemma xorl_false_l : forall l, xorl (repeat false (length l)) l = l.
Proof. induction l as [|b l IH]; cbn; [reflexivity|]. rewrite IH. destruct b; reflexivity. Qed.

(* a 16-bit word fed to a register [s] empties it exactly when it equals [s] *)
Lemma run_word_zero s c : s < 65536 -> c < 65536 ->
  (run s (bits_of 16 c) = 0 <-> c = s).
Proof.
  intros Hs Hc. split.
  - intros H.
    assert (L: run s (bits_of 16 c) =
               N.lxor (run (N.lxor s c) (repeat false 16)) (run c (bits_of 16 c))).
    { rewrite <- run_lin by (rewrite bits_of_length; reflexivity).
      f_equal.
      - rewrite N.lxor_assoc, N.lxor_nilpotent, N.lxor_0_r. reflexivity.
      - pose proof (xorl_false_l (bits_of 16 c)) as X. rewrite bits_of_length in X.
        symmetry. exact X. }
    rewrite self_cancel, N.lxor_0_r in L by exact Hc. rewrite H in L.
    destruct (N.eq_dec (N.lxor s c) 0) as [Hz|Hnz].
    + apply N.lxor_eq in Hz. congruence.
    + exfalso. apply (run_zeros_nonzero 16 (N.lxor s c)); [apply lxor_bound16; assumption|exact Hnz|].
      symmetry. exact L.
  - intros ->. apply self_cancel. exact Hs.
Qed.

(* data followed by a little-endian 16-bit word runs the register to 0 exactly
   when the word is the CRC of the data *)
Lemma codeword d lo hi : lo < 256 -> hi < 256 ->
  (run 0 (bits (d ++ [lo; hi])) = 0 <-> of_le16 lo hi = crc16 d).
Proof.
  intros Hlo Hhi.
  rewrite bits_app, run_app, bits_le16 by exact Hlo. fold (crc16 d).
  apply run_word_zero; [apply crc16_bound|unfold of_le16; lia].
Qed.

(* ====================================================================== *)
(* 4. round trip                                                            *)
(* ====================================================================== *)

Lemma rstrip0_cons b l :
  rstrip0 (b :: l) = match rstrip0 l with
                     | [] => if isz b then [] else [b]
                     | _ => b :: rstrip0 l
                     end.
Proof. reflexivity. Qed.

Lemma rstrip0_zeros : forall k, rstrip0 (repeat 0 k) = [].
Proof. induction k as [|k IH]; [reflexivity|]. cbn [repeat]. rewrite rstrip0_cons, IH. reflexivity. Qed.

Lemma rstrip0_app_zeros : forall s k, rstrip0 (s ++ repeat 0 k) = rstrip0 s.
Proof.
  induction s as [|b s IH]; intros k; cbn [app].
  - apply rstrip0_zeros.
  - rewrite !rstrip0_cons, IH. reflexivity.
Qed.

Lemma trim_pad16 s : trim (pad16 s) = trim s.
Proof. unfold trim, pad16. rewrite rstrip0_app_zeros. reflexivity. Qed.

Lemma pad16_length s : (length s <= 16)%nat -> length (pad16 s) = 16%nat.
Proof. intros H. unfold pad16. rewrite app_length, repeat_length. lia. Qed.

Lemma firstn_app_exact {A} (a b : list A) n : length a = n -> firstn n (a ++ b) = a.
Proof.
  intros <-. rewrite firstn_app, Nat.sub_diag, firstn_all. cbn. apply app_nil_r.
Qed.

Lemma skipn_app_exact {A} (a b : list A) n : length a = n -> skipn n (a ++ b) = b.
Proof.
  intros <-. rewrite skipn_app, Nat.sub_diag, skipn_all. reflexivity.
Qed.

(* the subject field only depends on the first 17 bytes *)
Lemma subject_field_app d t : (17 <= length d)%nat -> subject_field (d ++ t) = subject_field d.
Proof.
  intros H. unfold subject_field.
  destruct d as [|x d]; [cbn in H; lia|]. cbn [app skipn].
  rewrite firstn_app. cbn [length] in H.
  replace (16 - length d)%nat with 0%nat by lia. cbn [firstn]. apply app_nil_r.
Qed.

Lemma decode_log d : (17 <= length d)%nat -> is_log (trim (subject_field d)) = true ->
  serial_decode d = Ok (hd 0 d, trim (subject_field d), skipn 17 d).
Proof.
  intros Hl Hlog. unfold serial_decode.
  destruct (Nat.ltb_spec (length d) 1); [lia|].
  destruct (Nat.ltb_spec (length d) 17); [lia|].
  rewrite Hlog. reflexivity.
Qed.

Lemma decode_crc body lo hi : (17 <= length body)%nat ->
  is_log (trim (subject_field body)) = false ->
  serial_decode (body ++ [lo; hi]) =
    if of_le16 lo hi =? crc16 body
    then Ok (hd 0 body, trim (subject_field body), skipn 17 body) else Err 2.
Proof.
  intros Hl Hlog. unfold serial_decode.
  rewrite subject_field_app by exact Hl. rewrite Hlog.
  rewrite app_length. cbn [length].
  destruct (Nat.ltb_spec (length body + 2) 1); [lia|].
  destruct (Nat.ltb_spec (length body + 2) 17); [lia|].
  destruct (Nat.ltb_spec (length body + 2) 19); [lia|].
  replace (length body + 2 - 2)%nat with (length body) by lia.
  rewrite firstn_app_exact, skipn_app_exact by reflexivity.
  destruct body as [|x body]; [cbn in Hl; lia|]. reflexivity.
Qed.

Lemma body_length seq subj (payload : bytes) : (length subj <= 16)%nat ->
  length (seq :: pad16 subj ++ payload) = (17 + length payload)%nat.
Proof. intros H. cbn [length]. rewrite app_length, pad16_length by exact H. lia. Qed.

Lemma body_subject seq subj (payload : bytes) : (length subj <= 16)%nat ->
  subject_field (seq :: pad16 subj ++ payload) = pad16 subj.
Proof.
  intros H. unfold subject_field. cbn [skipn]. apply firstn_app_exact, pad16_length, H.
Qed.

Lemma body_payload seq subj (payload : bytes) : (length subj <= 16)%nat ->
  skipn 17 (seq :: pad16 subj ++ payload) = payload.
Proof.
  intros H. change (skipn 17 (seq :: pad16 subj ++ payload)) with (skipn 16 (pad16 subj ++ payload)).
  apply skipn_app_exact, pad16_length, H.
Qed.

Lemma le16_of_le16 c : c < 65536 -> of_le16 (c mod 256) ((c / 256) mod 256) = c.
Proof. intros H. unfold of_le16. lia. Qed.

(* decoding an encoded packet gives back sequence number, subject and payload:
   every sequence number, every subject of at most 16 bytes without NUL at
   either end (NUL bytes inside are fine), every payload, every packet size *)
Theorem roundtrip : forall seq subj payload,
  (length subj <= 16)%nat -> trim subj = subj ->
  exists pkt, serial_encode seq subj payload = Ok pkt /\
              serial_decode pkt = Ok (seq, subj, payload).
Proof.
  intros seq subj payload Hlen Htrim. unfold serial_encode.
  destruct (Nat.ltb_spec 16 (length subj)) as [H|_]; [lia|].
  set (body := seq :: pad16 subj ++ payload).
  assert (Hbl: (17 <= length body)%nat) by (unfold body; rewrite body_length by exact Hlen; lia).
  assert (Hsf: trim (subject_field body) = subj)
    by (unfold body; rewrite body_subject, trim_pad16 by exact Hlen; exact Htrim).
  rewrite trim_pad16, Htrim.
  destruct (is_log subj) eqn:Hlog.
  - exists body. split; [reflexivity|].
    rewrite decode_log; [|exact Hbl|rewrite Hsf; exact Hlog].
    rewrite Hsf. unfold body at 2. rewrite body_payload by exact Hlen. reflexivity.
  - exists (body ++ le16 (crc16 body)). split; [reflexivity|].
    unfold le16. rewrite decode_crc; [|exact Hbl|rewrite Hsf; exact Hlog].
    rewrite le16_of_le16 by apply crc16_bound. rewrite N.eqb_refl, Hsf.
    unfold body at 2. rewrite body_payload by exact Hlen. reflexivity.
Qed.

(* ====================================================================== *)
(* 5. error patterns of the stated classes have a non-zero syndrome         *)
(* ====================================================================== *)

Lemma weight_app a b : weight (a ++ b) = (weight a + weight b)%nat.
Proof. induction a as [|[|] a IH]; cbn; lia. Qed.

Lemma weight_zeros k : weight (repeat false k) = 0%nat.
Proof. induction k; cbn; auto. Qed.

Lemma weight_zero : forall l, weight l = 0%nat -> l = repeat false (length l).
Proof.
  induction l as [|[|] l IH]; cbn; intros H; [reflexivity|discriminate|].
  f_equal. apply IH, H.
Qed.

Lemma weight_decomp : forall l w, weight l = S w ->
  exists a t, l = repeat false a ++ true :: t /\ weight t = w.
Proof.
  induction l as [|[|] l IH]; cbn; intros w H; [discriminate| |].
  - exists 0%nat, l. split; [reflexivity|lia].
  - destruct (IH w H) as (a & t & -> & Ht). exists (S a), t. split; [reflexivity|exact Ht].
Qed.

Lemma drop_lead_zeros a l : drop_lead (repeat false a ++ true :: l) = true :: l.
Proof. induction a as [|a IH]; [reflexivity|exact IH]. Qed.

Lemma drop_trail_cons b l :
  drop_trail (b :: l) = match drop_trail l with
                        | [] => if b then [true] else []
                        | _ => b :: drop_trail l
                        end.
Proof. reflexivity. Qed.

Lemma drop_trail_spec : forall l, exists c, l = drop_trail l ++ repeat false c.
Proof.
  induction l as [|b l [c IH]].
  - exists 0%nat. reflexivity.
  - rewrite drop_trail_cons. destruct (drop_trail l) as [|x t] eqn:E.
    + destruct b.
      * exists c. cbn. f_equal. exact IH.
      * exists (S c). cbn. f_equal. exact IH.
    + exists c. cbn [app]. f_equal. exact IH.
Qed.

(* value of a bit list, least significant first *)
Lemma pack8_bound : forall l, pack8 l < 2 ^ N.of_nat (length l).
Proof.
  induction l as [|b l IH]; [cbn; lia|].
  cbn [pack8 length]. rewrite Nat2N.inj_succ, N.pow_succ_r'. destruct b; cbn [N.b2n]; lia.
Qed.

Lemma bits_of_pack8 : forall l, bits_of (length l) (pack8 l) = l.
Proof.
  induction l as [|b l IH]; [reflexivity|].
  cbn [pack8 length bits_of]. f_equal.
  - rewrite N.odd_add_mul_2. destruct b; reflexivity.
  - transitivity (bits_of (length l) (pack8 l)); [|exact IH]. f_equal. rewrite N.div2_div.
    destruct b; cbn [N.b2n]; lia.
Qed.

Lemma pack8_zero : forall l, pack8 l = 0 -> weight l = 0%nat.
Proof.
  induction l as [|b l IH]; [reflexivity|]. cbn [pack8 weight]. intros H.
  destruct b; cbn [N.b2n] in H; [lia|]. apply IH. lia.
Qed.

(* a window of at most 16 bits that is not all zero leaves a non-zero register *)
Lemma short_window_nonzero w : (length w <= 16)%nat -> (1 <= weight w)%nat -> run 0 w <> 0.
Proof.
  intros Hl Hw.
  set (w' := repeat false (16 - length w) ++ w).
  assert (Hl': length w' = 16%nat) by (unfold w'; rewrite app_length, repeat_length; lia).
  assert (E: run 0 w = run 0 w') by (unfold w'; rewrite run_app, run_zeros_zero; reflexivity).
  rewrite E. rewrite <- (bits_of_pack8 w'). rewrite Hl'.
  apply window_nonzero.
  - pose proof (pack8_bound w') as H. rewrite Hl' in H. exact H.
  - intros H. apply pack8_zero in H. unfold w' in H. rewrite weight_app, weight_zeros in H. lia.
Qed.

Theorem syndrome_nonzero : forall e,
  N.of_nat (length e) < 32767 -> in_class e = true -> run 0 e <> 0.
Proof.
  intros e Hlen Hc. unfold in_class in Hc.
  apply andb_true_iff in Hc as [Hw Hc]. apply Nat.leb_le in Hw.
  destruct (weight e) as [|w] eqn:Ew; [lia|].
  destruct (weight_decomp e w Ew) as (a & t & -> & Ht).
  rewrite run_app, run_zeros_zero.
  destruct w as [|w].
  - (* one bit *)
    apply weight_zero in Ht. revert Ht. generalize (length t). intros c ->.
    change (true :: repeat false c) with ([true] ++ repeat false c).
    rewrite run_app. apply run_zeros_nonzero; [apply run_bound; lia|]. vm_compute. discriminate.
  - destruct w as [|w].
    + (* two bits *)
      destruct (weight_decomp t 0 Ht) as (j & t' & -> & Ht').
      apply weight_zero in Ht'. revert Ht' Hlen. generalize (length t'). intros c -> Hlen.
      replace (true :: repeat false j ++ true :: repeat false c)
        with ((true :: repeat false j ++ [true]) ++ repeat false c)
        by (cbn [app]; rewrite <- app_assoc; reflexivity).
      rewrite run_app.
      rewrite !app_length in Hlen. cbn [length] in Hlen. rewrite app_length in Hlen. cbn [length] in Hlen.
      rewrite !repeat_length in Hlen.
      apply run_zeros_nonzero; [apply run_bound; lia|].
      apply double_bit_nonzero. lia.
    + (* a burst of at most 16 bits *)
      apply orb_true_iff in Hc as [Hc|Hc]; [apply Nat.leb_le in Hc; lia|].
      apply Nat.leb_le in Hc. unfold span in Hc. rewrite drop_lead_zeros in Hc.
      destruct (drop_trail_spec (true :: t)) as [c Hs].
      set (W := drop_trail (true :: t)) in *.
      rewrite Hs, run_app.
      assert (HwW: weight W = S (S (S w))).
      { assert (H: weight (true :: t) = S (S (S w))) by (cbn; lia).
        rewrite Hs, weight_app, weight_zeros in H. lia. }
      apply run_zeros_nonzero; [apply run_bound; lia|].
      apply short_window_nonzero; [exact Hc|lia].
Qed.

(* ====================================================================== *)
(* 6. detection                                                             *)
(* ====================================================================== *)

Definition byte_lt (b : N) : Prop := b < 256.

Lemma lxor_bound8 a b : a < 256 -> b < 256 -> N.lxor a b < 256.
Proof.
  intros Ha Hb. destruct (N.eq_dec (N.lxor a b) 0) as [->|Hnz]; [lia|].
  change 256 with (2 ^ 8). apply N.log2_lt_pow2; [lia|].
  pose proof (N.log2_lxor a b) as H.
  assert (La: N.log2 a < 8).
  { destruct (N.eq_dec a 0) as [->|Hz]; [cbn; lia|]. apply N.log2_lt_pow2; [lia|exact Ha]. }
  assert (Lb: N.log2 b < 8).
  { destruct (N.eq_dec b 0) as [->|Hz]; [cbn; lia|]. apply N.log2_lt_pow2; [lia|exact Hb]. }
  lia.
Qed.

Lemma xor_bytes_ok : forall a e, Forall byte_lt a -> Forall byte_lt e -> Forall byte_lt (xor_bytes a e).
Proof.
  induction a as [|x a IH]; intros [|y e] Ha He; cbn; try assumption.
  inversion Ha; inversion He; subst. constructor; [apply lxor_bound8; assumption|apply IH; assumption].
Qed.

Lemma pad16_ok s : Forall byte_lt s -> Forall byte_lt (pad16 s).
Proof.
  intros H. unfold pad16. apply Forall_app. split; [exact H|].
  apply Forall_forall. intros x Hx. apply repeat_spec in Hx. subst. unfold byte_lt. lia.
Qed.

(* a packet is a codeword: the register ends at 0 *)
Lemma packet_codeword body : run 0 (bits (body ++ le16 (crc16 body))) = 0.
Proof.
  unfold le16. apply codeword; try lia.
  apply le16_of_le16, crc16_bound.
Qed.

Lemma split_tail2 {A} (d : list A) n : length d = (n + 2)%nat ->
  exists body x y, d = body ++ [x; y] /\ length body = n.
Proof.
  intros H. exists (firstn n d).
  assert (Hs: length (skipn n d) = 2%nat) by (rewrite skipn_length; lia).
  destruct (skipn n d) as [|x [|y [|z t]]] eqn:E; cbn in Hs; try lia.
  exists x, y. split; [rewrite <- E; symmetry; apply firstn_skipn|].
  rewrite firstn_length. lia.
Qed.

(* Every CRC-checked packet shorter than 4095 bytes, hit by any non-zero error
   pattern of the same length that is of weight 1 or 2 or a burst of at most 16
   bits (in the bit order the CRC consumes), is rejected with "CRC check failed"
   -- unless the error turned the subject field into "log", for which the
   decoder checks nothing (K4). *)
Theorem detects : forall seq subj payload pkt e,
  serial_encode seq subj payload = Ok pkt ->
  crc_checked subj = true ->
  seq < 256 -> Forall byte_lt subj -> Forall byte_lt payload -> Forall byte_lt e ->
  length e = length pkt -> (length pkt < 4095)%nat ->
  in_class (bits e) = true ->
  is_log (trim (subject_field (xor_bytes pkt e))) = false ->
  serial_decode (xor_bytes pkt e) = Err 2.
Proof.
  intros seq subj payload pkt e Henc Hchk Hseq Hsubj Hpay He Hlen Hshort Hcls Hnolog.
  unfold serial_encode in Henc.
  destruct (Nat.ltb_spec 16 (length subj)) as [|Hsl]; [discriminate|].
  unfold crc_checked in Hchk. apply negb_true_iff in Hchk. rewrite Hchk in Henc.
  set (body := seq :: pad16 subj ++ payload) in *.
  assert (Hpkt: pkt = body ++ le16 (crc16 body)) by (injection Henc as <-; reflexivity).
  clear Henc. subst pkt.
  set (pkt := body ++ le16 (crc16 body)) in *.
  assert (Hbl: length body = (17 + length payload)%nat) by (apply body_length; exact Hsl).
  assert (Hpl: length pkt = (length body + 2)%nat) by (unfold pkt; rewrite app_length; reflexivity).
  assert (Hpok: Forall byte_lt pkt).
  { unfold pkt, body. apply Forall_app. split.
    - constructor; [exact Hseq|]. apply Forall_app. split; [apply pad16_ok; exact Hsubj|exact Hpay].
    - unfold le16. repeat constructor; unfold byte_lt; lia. }
  set (d := xor_bytes pkt e) in *.
  assert (Hdl: length d = (length body + 2)%nat) by (unfold d; rewrite xor_bytes_length; exact Hpl).
  assert (Hdok: Forall byte_lt d) by (apply xor_bytes_ok; assumption).
  destruct (split_tail2 d (length body) Hdl) as (body' & lo & hi & Hd & Hb'l).
  assert (Hlohi: lo < 256 /\ hi < 256).
  { rewrite Hd in Hdok. apply Forall_app in Hdok as [_ Ht].
    inversion Ht as [|? ? Hlo Ht']; subst. inversion Ht' as [|? ? Hhi _]; subst. split; assumption. }
  destruct Hlohi as [Hlo Hhi].
  assert (Hsf: subject_field d = subject_field body').
  { rewrite Hd. apply subject_field_app. lia. }
  rewrite Hsf in Hnolog. rewrite Hd.
  rewrite decode_crc; [|lia|exact Hnolog].
  destruct (N.eqb_spec (of_le16 lo hi) (crc16 body')) as [Heq|]; [exfalso|reflexivity].
  apply (codeword body' lo hi Hlo Hhi) in Heq. rewrite <- Hd in Heq.
  unfold d in Heq. rewrite bits_xor_bytes in Heq by (symmetry; exact Hlen).
  rewrite crc_linear in Heq by (rewrite !bits_length; lia).
  unfold pkt at 1 in Heq. rewrite packet_codeword, N.lxor_0_l in Heq.
  apply (syndrome_nonzero (bits e)); [|exact Hcls|exact Heq].
  rewrite bits_length. lia.
Qed.

(* the same, in the form "rejected or delivered unchanged" *)
Corollary detects_or_same : forall seq subj payload pkt e,
  serial_encode seq subj payload = Ok pkt ->
  crc_checked subj = true ->
  seq < 256 -> Forall byte_lt subj -> Forall byte_lt payload -> Forall byte_lt e ->
  length e = length pkt -> (length pkt < 4095)%nat ->
  in_class (bits e) = true ->
  is_log (trim (subject_field (xor_bytes pkt e))) = false ->
  (exists c, serial_decode (xor_bytes pkt e) = Err c) \/
  serial_decode (xor_bytes pkt e) = Ok (seq, trim subj, payload).
Proof. intros. left. exists 2. eapply detects; eassumption. Qed.

(* ====================================================================== *)
(* 7. subjects far from "log": detection without a side condition           *)
(* ====================================================================== *)

Lemma strip0_spec : forall l, exists a, l = repeat 0 a ++ strip0 l.
Proof.
  induction l as [|b l [a IH]]; [exists 0%nat; reflexivity|].
  cbn [strip0]. unfold isz. destruct (N.eqb_spec b 0) as [->|Hb].
  - exists (S a). cbn. f_equal. exact IH.
  - exists 0%nat. reflexivity.
Qed.

Lemma rstrip0_spec : forall l, exists c, l = rstrip0 l ++ repeat 0 c.
Proof.
  induction l as [|b l [c IH]]; [exists 0%nat; reflexivity|].
  rewrite rstrip0_cons. destruct (rstrip0 l) as [|x t] eqn:E.
  - unfold isz. destruct (N.eqb_spec b 0) as [->|Hb].
    + exists (S c). cbn. f_equal. exact IH.
    + exists c. cbn. f_equal. exact IH.
  - exists c. cbn [app]. f_equal. exact IH.
Qed.

(* a 16-byte field that trims to "log" is one of the 14 placements *)
Lemma trim_log_field f : length f = 16%nat -> trim f = log_subj ->
  exists i, (i < 14)%nat /\ f = log_field i.
Proof.
  intros Hl Ht. unfold trim in Ht.
  destruct (rstrip0_spec f) as [c Hc]. destruct (strip0_spec (rstrip0 f)) as [a Ha].
  rewrite Ht in Ha. rewrite Ha in Hc.
  assert (Hlen: (a + 3 + c = 16)%nat).
  { rewrite Hc in Hl. rewrite !app_length, !repeat_length in Hl. cbn in Hl. lia. }
  exists a. split; [lia|]. unfold log_field. rewrite Hc, <- app_assoc.
  replace c with (13 - a)%nat by lia. reflexivity.
Qed.

Lemma xor_bytes_app : forall a b e f, length a = length e ->
  xor_bytes (a ++ b) (e ++ f) = xor_bytes a e ++ xor_bytes b f.
Proof.
  induction a as [|x a IH]; intros b [|y e] f H; try discriminate; [reflexivity|].
  cbn. f_equal. apply IH. cbn in H. lia.
Qed.

Lemma xor_bytes_invol : forall a e, length a = length e -> xor_bytes a (xor_bytes a e) = e.
Proof.
  induction a as [|x a IH]; intros [|y e] H; try discriminate; [reflexivity|].
  cbn. f_equal.
  - rewrite <- N.lxor_assoc, N.lxor_nilpotent, N.lxor_0_l. reflexivity.
  - apply IH. cbn in H. lia.
Qed.

Lemma drop_trail_length_cons b l : (length (drop_trail l) <= length (drop_trail (b :: l)))%nat.
Proof. rewrite drop_trail_cons. destruct (drop_trail l); cbn; lia. Qed.

Lemma drop_trail_drop_lead : forall l, (length (drop_trail (drop_lead l)) <= length (drop_trail l))%nat.
Proof.
  induction l as [|[|] l IH]; cbn [drop_lead]; [lia|lia|].
  pose proof (drop_trail_length_cons false l). lia.
Qed.

Lemma span_cons b l : (span l <= span (b :: l))%nat.
Proof.
  unfold span. destruct b; cbn [drop_lead]; [|lia].
  pose proof (drop_trail_drop_lead l). pose proof (drop_trail_length_cons true l). lia.
Qed.

Lemma span_app_l : forall a l, (span l <= span (a ++ l))%nat.
Proof.
  induction a as [|b a IH]; intros l; cbn [app]; [lia|].
  pose proof (span_cons b (a ++ l)). specialize (IH l). lia.
Qed.

Lemma drop_trail_app : forall t c, (length (drop_trail t) <= length (drop_trail (t ++ c)))%nat.
Proof.
  induction t as [|b t IH]; intros c; cbn [app]; [cbn; lia|].
  rewrite !drop_trail_cons. specialize (IH c).
  destruct (drop_trail t) as [|x u] eqn:E1; destruct (drop_trail (t ++ c)) as [|y v] eqn:E2;
    cbn [length] in *; try lia; destruct b; cbn; lia.
Qed.

Lemma drop_lead_app_true : forall m c, (1 <= weight m)%nat -> drop_lead (m ++ c) = drop_lead m ++ c.
Proof.
  induction m as [|[|] m IH]; intros c H; cbn in H; [lia|reflexivity|].
  cbn [app drop_lead]. apply IH, H.
Qed.

Lemma span_app_r m c : (span m <= span (m ++ c))%nat.
Proof.
  destruct (weight m) as [|w] eqn:Ew.
  - apply weight_zero in Ew. rewrite Ew at 1. unfold span.
    assert (Z: forall k, drop_lead (repeat false k) = []) by (induction k; cbn; auto).
    rewrite Z. cbn. lia.
  - unfold span. rewrite drop_lead_app_true by lia. apply drop_trail_app.
Qed.

(* the error seen by the subject field is in the stated classes if the whole error is *)
Lemma in_class_window a m c : in_class (a ++ m ++ c) = true ->
  (weight m <= 2)%nat \/ (span m <= 16)%nat.
Proof.
  unfold in_class. intros H. apply andb_true_iff in H as [_ H].
  apply orb_true_iff in H as [H|H]; apply Nat.leb_le in H.
  - left. rewrite !weight_app in H. lia.
  - right. pose proof (span_app_l a (m ++ c)). pose proof (span_app_r m c). lia.
Qed.

Lemma far_from_log_spec subj i : far_from_log subj = true -> (i < 14)%nat ->
  let d := bits (xor_bytes (pad16 subj) (log_field i)) in
  (2 < weight d)%nat /\ (16 < span d)%nat.
Proof.
  intros H Hi. unfold far_from_log in H. rewrite forallb_forall in H.
  specialize (H i). cbv zeta in *. 
  assert (Hin: In i (List.seq 0 14)) by (apply in_seq; lia).
  apply H in Hin. apply negb_true_iff, orb_false_iff in Hin as [H1 H2].
  apply Nat.leb_gt in H1. apply Nat.leb_gt in H2. split; assumption.
Qed.

(* no error of the stated classes turns a far-from-log subject into "log" *)
Lemma far_from_log_stays seq subj rest e :
  (length subj <= 16)%nat -> far_from_log subj = true ->
  length e = length (seq :: pad16 subj ++ rest) ->
  in_class (bits e) = true ->
  is_log (trim (subject_field (xor_bytes (seq :: pad16 subj ++ rest) e))) = false.
Proof.
  intros Hsl Hfar Hlen Hcls.
  destruct (is_log _) eqn:Hlog; [exfalso|reflexivity].
  apply bytes_eqb_eq in Hlog.
  pose proof (pad16_length subj Hsl) as Hpl.
  cbn [length] in Hlen. rewrite app_length, Hpl in Hlen.
  destruct e as [|x e]; [cbn in Hlen; lia|]. cbn [length] in Hlen.
  set (ef := firstn 16 e). set (er := skipn 16 e).
  assert (He: e = ef ++ er) by (symmetry; apply firstn_skipn).
  assert (Hefl: length ef = 16%nat) by (unfold ef; rewrite firstn_length; lia).
  rewrite He in Hlog, Hcls. cbn [xor_bytes] in Hlog.
  rewrite xor_bytes_app in Hlog by lia.
  unfold subject_field in Hlog. cbn [skipn] in Hlog.
  rewrite firstn_app_exact in Hlog by (rewrite xor_bytes_length; exact Hpl).
  destruct (trim_log_field _ (eq_trans (xor_bytes_length _ _) Hpl) Hlog) as (i & Hi & Hf).
  assert (Hef: ef = xor_bytes (pad16 subj) (log_field i)).
  { rewrite <- Hf. symmetry. apply xor_bytes_invol. lia. }
  destruct (far_from_log_spec subj i Hfar Hi) as [Hw Hs]. rewrite <- Hef in Hw, Hs.
  change (x :: ef ++ er) with ([x] ++ ef ++ er) in Hcls. rewrite !bits_app in Hcls.
  apply in_class_window in Hcls. lia.
Qed.

Theorem detects_far_from_log : forall seq subj payload pkt e,
  serial_encode seq subj payload = Ok pkt ->
  far_from_log subj = true ->
  seq < 256 -> Forall byte_lt subj -> Forall byte_lt payload -> Forall byte_lt e ->
  length e = length pkt -> (length pkt < 4095)%nat ->
  in_class (bits e) = true ->
  serial_decode (xor_bytes pkt e) = Err 2.
Proof.
  intros seq subj payload pkt e Henc Hfar Hseq Hsubj Hpay He Hlen Hshort Hcls.
  assert (Hsl: (length subj <= 16)%nat).
  { unfold serial_encode in Henc. destruct (Nat.ltb_spec 16 (length subj)); [discriminate|lia]. }
  assert (Hchk: crc_checked subj = true).
  { (* far_from_log excludes "log" itself: the zero difference has weight 0 *)
    unfold crc_checked. destruct (is_log (trim (pad16 subj))) eqn:Hlog; [exfalso|reflexivity].
    apply bytes_eqb_eq in Hlog.
    destruct (trim_log_field _ (pad16_length subj Hsl) Hlog) as (i & Hi & Hf).
    destruct (far_from_log_spec subj i Hfar Hi) as [Hw _].
    rewrite Hf in Hw.
    assert (Z: forall l, weight (bits (xor_bytes l l)) = 0%nat).
    { induction l as [|y l IH]; [reflexivity|]. cbn [xor_bytes]. unfold bits in *. cbn [flat_map].
      rewrite weight_app, IH, N.lxor_nilpotent. reflexivity. }
    rewrite Z in Hw. lia. }
  eapply detects; try eassumption.
  unfold serial_encode in Henc.
  destruct (Nat.ltb_spec 16 (length subj)); [discriminate|].
  unfold crc_checked in Hchk. apply negb_true_iff in Hchk. rewrite Hchk in Henc.
  assert (Hpkt: pkt = seq :: pad16 subj ++ (payload ++ le16 (crc16 (seq :: pad16 subj ++ payload)))).
  { injection Henc as <-. cbn [app]. rewrite <- app_assoc. reflexivity. }
  rewrite Hpkt in *. apply far_from_log_stays; assumption.
Qed.

(* ====================================================================== *)
(* 8. the known exception (K4): next to "log" the checksum is bypassed       *)
(* ====================================================================== *)

(* subject "p.g", one point-sized payload; the 13-bit burst  byte1 ^= 0x1c,
   byte2 ^= 0x41  turns the subject into "log": the packet is accepted without
   any check and delivered with a different subject and payload *)
Theorem log_adjacent_refuted :
  exists seq subj payload pkt e got,
    serial_encode seq subj payload = Ok pkt /\ crc_checked subj = true /\
    length e = length pkt /\ in_class (bits e) = true /\ span (bits e) = 13%nat /\
    serial_decode (xor_bytes pkt e) = Ok got /\ got <> (seq, trim subj, payload).
Proof.
  exists 7, [112; 46; 103], [10; 2; 18; 0].
  eexists. exists ([0; 28; 65] ++ repeat 0 20). eexists.
  split; [vm_compute; reflexivity|].
  split; [reflexivity|]. split; [reflexivity|]. split; [vm_compute; reflexivity|].
  split; [vm_compute; reflexivity|].
  split; [vm_compute; reflexivity|]. discriminate.
Qed.
