(* C17: what is false of the encoder of the pinned tree (client/serial-wrapper.go
   before the repair): SerialEncode appended the CRC on every subject, while
   SerialDecode strips and checks it on every subject except "log" -- so a
   packet encoded on the subject "log" came back with two extra payload bytes. *)
From Verif Require Import Base.Bytes Serial.Model.
Local Open Scope N_scope.

Theorem roundtrip_log_refuted :
  exists seq subj payload pkt,
    (length subj <= 16)%nat /\ trim subj = subj /\
    serial_encode_legacy seq subj payload = Ok pkt /\
    serial_decode pkt <> Ok (seq, subj, payload).
Proof.
  exists 1, log_subj, [10; 0]. eexists.
  split; [cbn; lia|]. split; [reflexivity|]. split; [vm_compute; reflexivity|].
  vm_compute. discriminate.
Qed.

(* the payload that comes back is the original followed by the two CRC bytes *)
Example roundtrip_log_legacy_payload :
  match serial_encode_legacy 1 log_subj [10; 0] with
  | Ok pkt => serial_decode pkt = Ok (1, log_subj, [10; 0] ++ le16 (crc16 (1 :: pad16 log_subj ++ [10; 0])))
  | _ => False
  end.
Proof. vm_compute. reflexivity. Qed.
