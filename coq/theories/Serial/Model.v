(* C17: executable model of client/serial-wrapper.go (SerialEncode / SerialDecode),
   of the CRC that github.com/kjx98/crc16 ChecksumCCITT computes, and of the
   property's specification (round trip, detection of the stated error classes).
   The protobuf payload is an opaque byte string here (the protobuf layer is C12).
   No proofs here: the model must keep running when a proof breaks. *)
From Verif Require Import Base.Bytes Base.Val.
Local Open Scope N_scope.

Inductive outcome (A : Type) :=
| Ok (a : A)
| Err (e : N)       (* 1 = "Not enough data", 2 = "CRC check failed", 3 = subject too long (encoder) *)
| Panic.
Arguments Ok {A} a.
Arguments Err {A} e.
Arguments Panic {A}.

(* ---------- CRC-16/KERMIT: reflected polynomial 0x8408, init 0, no final XOR ----------
   ChecksumCCITT = Update(0, MakeTableNoXOR(0x8408), data): the table entry of a
   byte is eight of these bit steps, so the byte-wise table walk and the bit-serial
   register agree (diffed against the library on every run: case kind 0). *)
Definition poly : N := 0x8408.

Definition step (s : N) (b : bool) : N :=
  let x := N.lxor s (N.b2n b) in
  if N.odd x then N.lxor (N.shiftr x 1) poly else N.shiftr x 1.

Definition run (s : N) (bs : list bool) : N := fold_left step bs s.

(* the n low bits of x, least significant first: the order the CRC consumes *)
Fixpoint bits_of (n : nat) (x : N) : list bool :=
  match n with O => [] | S n' => N.odd x :: bits_of n' (N.div2 x) end.

Definition bits (d : bytes) : list bool := flat_map (bits_of 8) d.

Definition crc16 (d : bytes) : N := run 0 (bits d).

(* binary.Write(LittleEndian, uint16) / binary.LittleEndian.Uint16 *)
Definition le16 (c : N) : bytes := [c mod 256; (c / 256) mod 256].
Definition of_le16 (lo hi : N) : N := lo + 256 * hi.

(* ---------- subject field ---------- *)
Definition isz (b : N) : bool := b =? 0.

Fixpoint strip0 (l : bytes) : bytes :=
  match l with
  | b :: l' => if isz b then strip0 l' else l
  | [] => []
  end.

Definition rstrip0 (l : bytes) : bytes :=
  fold_right (fun b acc => match acc with
                           | [] => if isz b then [] else [b]
                           | _ => b :: acc
                           end) [] l.

(* bytes.Trim(s, "\x00") *)
Definition trim (s : bytes) : bytes := strip0 (rstrip0 s).

(* sub := make([]byte, 16); copy(sub, subject) *)
Definition pad16 (s : bytes) : bytes := s ++ repeat 0 (16 - length s).

Definition log_subj : bytes := [108; 111; 103].       (* "log" *)
Definition is_log (s : bytes) : bool := bytes_eqb s log_subj.

(* ---------- SerialEncode (payload = proto.Marshal(SerialPoints), opaque) ---------- *)
Definition serial_encode (seq : N) (subj payload : bytes) : outcome bytes :=
  if (16 <? length subj)%nat then Err 3
  else
    let body := seq :: pad16 subj ++ payload in
    if is_log (trim (pad16 subj)) then Ok body                (* log packets carry no CRC *)
    else Ok (body ++ le16 (crc16 body)).

(* the encoder of the pinned tree: CRC appended on every subject (see Legacy.v) *)
Definition serial_encode_legacy (seq : N) (subj payload : bytes) : outcome bytes :=
  if (16 <? length subj)%nat then Err 3
  else let body := seq :: pad16 subj ++ payload in Ok (body ++ le16 (crc16 body)).

(* ---------- SerialDecode ---------- *)
Definition subject_field (d : bytes) : bytes := firstn 16 (skipn 1 d).

Definition serial_decode (d : bytes) : outcome (N * bytes * bytes) :=
  let l := length d in
  if (l <? 1)%nat then Err 1
  else if (l <? 17)%nat then Err 1
  else
    let seq := hd 0 d in
    let subject := trim (subject_field d) in
    if is_log subject then Ok (seq, subject, skipn 17 d)
    else if (l <? 19)%nat then Err 1
    else
      let body := firstn (l - 2) d in
      match skipn (l - 2) d with
      | [lo; hi] =>
          if of_le16 lo hi =? crc16 body then Ok (seq, subject, skipn 17 body) else Err 2
      | _ => Panic                                   (* unreachable: the tail has two bytes *)
      end.

(* first return value of SerialDecode when it returns an error: d[0], or 0 for no data *)
Definition err_seq (d : bytes) : N := hd 0 d.

(* ---------- error patterns ---------- *)
Fixpoint xor_bytes (a e : bytes) : bytes :=
  match a, e with
  | x :: a', y :: e' => N.lxor x y :: xor_bytes a' e'
  | _, _ => a
  end.

Fixpoint weight (l : list bool) : nat :=
  match l with
  | [] => O
  | b :: l' => if b then S (weight l') else weight l'
  end.

Fixpoint drop_lead (l : list bool) : list bool :=
  match l with
  | false :: l' => drop_lead l'
  | _ => l
  end.

(* without the trailing unset bits (one pass; [rev] would be quadratic) *)
Definition drop_trail (l : list bool) : list bool :=
  fold_right (fun (b : bool) (acc : list bool) =>
                match acc with
                | [] => if b then [true] else []
                | _ => b :: acc
                end) [] l.

(* distance from the first to the last set bit, inclusive; 0 for the zero pattern *)
Definition span (l : list bool) : nat := length (drop_trail (drop_lead l)).

(* non-zero, and (a) one or two bits or (b) one burst of at most 16 bits *)
Definition in_class (e : list bool) : bool :=
  (1 <=? weight e)%nat && ((weight e <=? 2)%nat || (span e <=? 16)%nat).

(* ---------- far_from_log: no error of the stated classes can turn the subject field
   into "log" (at any of its 14 positions in the NUL-trimmed field) ---------- *)
Definition log_field (i : nat) : bytes := repeat 0 i ++ log_subj ++ repeat 0 (13 - i).

Definition far_from_log (subj : bytes) : bool :=
  forallb (fun i => let d := bits (xor_bytes (pad16 subj) (log_field i)) in
                    negb ((weight d <=? 2)%nat || (span d <=? 16)%nat))
          (List.seq 0 14).

(* ====================================================================== *)
(* executable specification and case checker                               *)
(* ====================================================================== *)

(* a point as the harness reports it: strings as bytes, value as the IEEE bit
   pattern of float64(float32(v)), time in ns, tombstone, binary data *)
Record pt := { p_type : bytes; p_key : bytes; p_text : bytes; p_val : N;
               p_time : Z; p_tomb : Z; p_origin : bytes; p_data : bytes }.

Definition pt_eqb (a b : pt) : bool :=
  bytes_eqb (p_type a) (p_type b) && bytes_eqb (p_key a) (p_key b) &&
  bytes_eqb (p_text a) (p_text b) && (p_val a =? p_val b) &&
  (p_time a =? p_time b)%Z && (p_tomb a =? p_tomb b)%Z && bytes_eqb (p_origin a) (p_origin b) &&
  bytes_eqb (p_data a) (p_data b).

(* recorded result of one SerialDecode call *)
Inductive dres :=
| DOk (seq : N) (subj payload : bytes)
| DErr (e seq : N)
| DPanic.

Definition dres_eqb (a b : dres) : bool :=
  match a, b with
  | DOk s u p, DOk s' u' p' => (s =? s') && bytes_eqb u u' && bytes_eqb p p'
  | DErr e s, DErr e' s' => (e =? e') && (s =? s')
  | DPanic, DPanic => true
  | _, _ => false
  end.

Definition model_decode (d : bytes) : dres :=
  match serial_decode d with
  | Ok (s, u, p) => DOk s u p
  | Err e => DErr e (err_seq d)
  | Panic => DPanic
  end.

(* sparse error pattern: (byte offset, xor value) pairs *)
Fixpoint mask_set (m : bytes) (off : nat) (x : N) : bytes :=
  match m, off with
  | [], _ => []
  | b :: m', O => N.lxor b x :: m'
  | b :: m', S k => b :: mask_set m' k x
  end.

Definition mask_of (len : nat) (pat : list (nat * N)) : bytes :=
  fold_left (fun m ox => mask_set m (fst ox) (snd ox)) pat (repeat 0 len).

(* "rejected rather than delivered with different content" *)
Definition rejected_or_same (seq : N) (subj payload : bytes) (r : dres) : bool :=
  match r with
  | DErr _ _ => true
  | DOk s u p => (s =? seq) && bytes_eqb u (trim subj) && bytes_eqb p payload
  | DPanic => false
  end.

Definition crc_checked (subj : bytes) : bool := negb (is_log (trim (pad16 subj))).

(* ---------- exhaustive enumeration of the stated classes (thorough tier) ---------- *)
Fixpoint pack8 (bs : list bool) : N :=
  match bs with
  | [] => 0
  | b :: bs' => N.b2n b + 2 * pack8 bs'
  end.

Fixpoint bytes_of_bits (fuel : nat) (bs : list bool) : bytes :=
  match fuel with
  | O => []
  | S f => match bs with
           | [] => []
           | _ => pack8 (firstn 8 bs) :: bytes_of_bits f (skipn 8 bs)
           end
  end.

(* n bits, pattern [w] placed at bit i, cut at n *)
Definition place (n i : nat) (w : list bool) : list bool :=
  firstn n (repeat false i ++ w ++ repeat false (n - i)).

Fixpoint nseq (start : N) (len : nat) : list N :=
  match len with O => [] | S k => start :: nseq (start + 1) k end.

(* patterns as (first bit position, window): class 1: single bits at positions [a,b);
   class 2: pairs (i,j), a <= i < b, i < j < n; class 3: bursts whose first set bit is
   at i in [a,b): bit i set, the next 15 bits (as far as the packet goes) free *)
Definition enum_class (cls : N) (n a b : nat) : list (nat * list bool) :=
  match cls with
  | 1 => map (fun i => (i, [true])) (List.seq a (b - a))
  | 2 => flat_map (fun i => map (fun j => (i, true :: repeat false (j - i - 1) ++ [true]))
                                 (List.seq (S i) (n - S i))) (List.seq a (b - a))
  | _ => flat_map (fun i => let k := Nat.min 15 (n - S i) in
                            map (fun t => (i, true :: bits_of k t)) (nseq 0 (Nat.pow 2 k)))
                  (List.seq a (b - a))
  end.

(* ---------- cases ---------- *)
Inductive case :=
| CCrc (d : bytes) (crc : N)
| CRound (seq : N) (subj payload : bytes) (enc_ok : bool) (gob : bytes) (dec : dres)
         (pb_ok : bool) (exp got : list pt)
| CCorrupt (seq : N) (subj payload : bytes) (gob : bytes) (errs : list (list (nat * N) * dres))
| CRaw (d : bytes) (dec : dres)
| CExh (seq : N) (subj payload : bytes) (gob : bytes) (cls : N) (a b : nat) (count : N)
       (exc : list (bytes * dres)).

Definition enc_matches (seq : N) (subj payload : bytes) (enc_ok : bool) (gob : bytes) : bool :=
  match serial_encode seq subj payload with
  | Ok b => enc_ok && bytes_eqb b gob
  | _ => negb enc_ok
  end.

Definition subject_ok (subj : bytes) : bool :=
  (length subj <=? 16)%nat && bytes_eqb (trim subj) subj.

(* default result of decoding a corrupted CRC-checked packet *)
Definition default_res (d : bytes) : dres := DErr 2 (err_seq d).

(* byte mask of the pattern with window [w] at bit [i] (whole bytes before the window
   skipped, nothing after it: [xor_bytes] leaves the rest of the packet unchanged) *)
Definition mask_at (i : nat) (w : list bool) : bytes :=
  let pre := repeat false (Nat.modulo i 8) ++ w in
  repeat 0 (Nat.div i 8) ++ bytes_of_bits (length pre) pre.

Definition pad_to (len : nat) (m : bytes) : bytes := m ++ repeat 0 (len - length m).

(* decode every pattern of the list; count them, keep those whose result is not the
   default, and check that each pattern is of the stated classes and inside the packet *)
Fixpoint exceptions (f : bytes -> dres) (gob : bytes) (pats : list (nat * list bool)) (n : N)
  : N * bool * list (bytes * dres) :=
  match pats with
  | [] => (n, true, [])
  | (i, w) :: pats' =>
      let m := mask_at i w in
      let d := xor_bytes gob m in
      let r := f d in
      let '(n', ok, l) := exceptions f gob pats' (n + 1) in
      (n', in_class w && (i + length w <=? 8 * length gob)%nat && ok,
       if dres_eqb r (default_res d) then l else (pad_to (length gob) m, r) :: l)
  end.

Definition exc_eqb (a b : bytes * dres) : bool :=
  bytes_eqb (fst a) (fst b) && dres_eqb (snd a) (snd b).

Definition check_case (c : case) : N :=
  match c with
  | CCrc d crc => code (crc16 d =? crc) true
  | CRound seq subj payload enc_ok gob dec pb_ok exp got =>
      let corr := enc_matches seq subj payload enc_ok gob
                  && (negb enc_ok || dres_eqb (model_decode gob) dec) in
      let spec :=
        if subject_ok subj then
          enc_ok &&
          match dec with
          | DOk s u _ => (s =? seq) && bytes_eqb u subj
          | _ => false
          end && pb_ok && list_eqb pt_eqb exp got
        else true in
      code corr spec
  | CCorrupt seq subj payload gob errs =>
      let corr := enc_matches seq subj payload true gob
                  && forallb (fun pr => dres_eqb (model_decode (xor_bytes gob (mask_of (length gob) (fst pr))))
                                                 (snd pr)) errs in
      let spec :=
        negb (crc_checked subj) ||
        forallb (fun pr => negb (in_class (bits (mask_of (length gob) (fst pr))))
                           || rejected_or_same seq subj payload (snd pr)) errs in
      code corr spec
  | CRaw d dec => code (dres_eqb (model_decode d) dec) true
  | CExh seq subj payload gob cls a b count exc =>
      let pats := enum_class cls (8 * length gob) a b in
      let '(cnt, cls_ok, mexc) := exceptions model_decode gob pats 0 in
      let corr := enc_matches seq subj payload true gob && (cnt =? count)
                  && list_eqb exc_eqb mexc exc && cls_ok in
      let spec :=
        negb (crc_checked subj) ||
        forallb (fun pr => rejected_or_same seq subj payload (snd pr)) exc in
      code corr spec
  end.

(* ---------- decoding a case handed over by the harness ---------- *)
Definition dres_of_val (v : val) : option dres :=
  match v with
  | VL [VN 0; VN s; VB u; VB p] => Some (DOk s u p)
  | VL [VN 1; VN e; VN s] => Some (DErr e s)
  | VL [VN 2] => Some DPanic
  | _ => None
  end.

Definition pt_of_val (v : val) : option pt :=
  match v with
  | VL [VB ty; VB k; VB tx; VN x; t; tb; VB o; VB da] =>
      t <- get_z t ;; tb <- get_z tb ;;
      Some {| p_type := ty; p_key := k; p_text := tx; p_val := x; p_time := t; p_tomb := tb;
              p_origin := o; p_data := da |}
  | _ => None
  end.

Definition pair_of_val (v : val) : option (nat * N) :=
  match v with
  | VL [VN o; VN x] => Some (N.to_nat o, x)
  | _ => None
  end.

Definition err_of_val (v : val) : option (list (nat * N) * dres) :=
  match v with
  | VL [pat; r] => pat <- get_list pair_of_val pat ;; r <- dres_of_val r ;; Some (pat, r)
  | _ => None
  end.

Definition exc_of_val (v : val) : option (bytes * dres) :=
  match v with
  | VL [VB m; r] => r <- dres_of_val r ;; Some (m, r)
  | _ => None
  end.

Definition case_of_val (v : val) : option case :=
  match v with
  | VL [VN 0; VB d; VN crc] => Some (CCrc d crc)
  | VL [VN 1; VN seq; VB subj; VB payload; eo; VB gob; dec; po; exp; got] =>
      eo <- get_bool eo ;; dec <- dres_of_val dec ;; po <- get_bool po ;;
      exp <- get_list pt_of_val exp ;; got <- get_list pt_of_val got ;;
      Some (CRound seq subj payload eo gob dec po exp got)
  | VL [VN 2; VN seq; VB subj; VB payload; VB gob; errs] =>
      errs <- get_list err_of_val errs ;;
      Some (CCorrupt seq subj payload gob errs)
  | VL [VN 3; VB d; dec] => dec <- dres_of_val dec ;; Some (CRaw d dec)
  | VL [VN 4; VN seq; VB subj; VB payload; VB gob; VN cls; VN a; VN b; VN count; exc] =>
      exc <- get_list exc_of_val exc ;;
      Some (CExh seq subj payload gob cls (N.to_nat a) (N.to_nat b) count exc)
  | _ => None
  end.

Definition check_val : val -> N := check_with case_of_val check_case.
