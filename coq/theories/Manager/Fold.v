(* C08, last clause: a client that folds what it is told (and what it wrote itself) into the configuration it
   was started with holds what the store holds.  Proved for the scalar point fields of the decoder model of
   Manager/Model.v (field_text / field_val: every point of the field's type in order, the last one wins, an
   odd tombstone gives the zero value) against the store model's newest-point-wins merge, for every history
   of requests.  The hypothesis is the one the property states: timestamps do not decrease per identity. *)
From Coq Require Import List NArith ZArith Bool Lia Permutation.
Import ListNotations.
From Verif Require Import Base.Bytes Store.GraphCount Store.GraphWalk Store.Model Store.ProofsRows Store.ProofsHash Store.ProofsTop Store.ProofsSpec.
From Verif Require Import Manager.Model.

Section Field.
Variable A : Type.
Variable g : point -> A.
Variable z : A.
Hypothesis g_normp : forall p, g (normp p) = g p.

Definition field (ps : list point) (ty : bytes) : A :=
  fold_left (fun acc p => if bytes_eqb (p_type p) ty then (if pt_deleted p then z else g p) else acc) ps z.

Definition typed (ty : bytes) (ps : list point) : list point := filter (fun p => bytes_eqb (p_type p) ty) ps.
Definition last_opt (l : list point) (acc : option point) : option point := fold_left (fun _ p => Some p) l acc.
Definition read (o : option point) : A := match o with None => z | Some p => if pt_deleted p then z else g p end.

Lemma field_gen ty ps : forall acc o, acc = read o ->
  fold_left (fun acc p => if bytes_eqb (p_type p) ty then (if pt_deleted p then z else g p) else acc) ps acc =
  read (last_opt (typed ty ps) o).
Proof.
  induction ps as [|p ps IH]; intros acc o E; cbn [fold_left typed filter last_opt]; [exact E|].
  destruct (bytes_eqb (p_type p) ty) eqn:Et.
  - cbn [fold_left]. apply (IH _ (Some p)). reflexivity.
  - apply IH. exact E.
Qed.

Lemma field_last ty ps : field ps ty = read (last_opt (typed ty ps) None).
Proof. unfold field. apply field_gen. reflexivity. Qed.

Lemma typed_app ty a b : typed ty (a ++ b) = typed ty a ++ typed ty b.
Proof. apply filter_app. Qed.

Lemma last_opt_app a b o : last_opt (a ++ b) o = last_opt b (last_opt a o).
Proof. apply fold_left_app. Qed.

Lemma pt_deleted_normp p : pt_deleted (normp p) = pt_deleted p.
Proof. reflexivity. Qed.

Lemma read_normp o : read (option_map normp o) = read o.
Proof. destruct o as [p|]; cbn [option_map read]; [rewrite pt_deleted_normp, g_normp|]; reflexivity. Qed.

Lemma last_opt_map l : forall o, option_map normp (last_opt l o) = last_opt (map normp l) (option_map normp o).
Proof. induction l as [|p l IH]; intros o; cbn [last_opt fold_left map]; [reflexivity|]. apply (IH (Some p)). Qed.
End Field.

(* ---- newest-point-wins over a sequence whose times do not decrease is "the last one" ---- *)
Fixpoint nondec (acc : option point) (l : list point) : Prop :=
  match l with
  | [] => True
  | p :: l' => match acc with None => True | Some q => (p_time q <= p_time p)%Z end /\ nondec (Some p) l'
  end.

Lemma fold_newer_nondec l : forall acc, nondec acc l -> fold_left newer l acc = last_opt l acc.
Proof.
  induction l as [|p l IH]; intros acc H; cbn [fold_left last_opt]; [reflexivity|].
  destruct H as [H1 H2]. fold (last_opt l (Some p)). rewrite <- (IH (Some p) H2). f_equal.
  destruct acc as [q|]; cbn [newer]; [|reflexivity].
  destruct (Z.leb_spec (p_time q) (p_time p)); [reflexivity|lia].
Qed.

Lemma nondec_map_normp l : forall acc, nondec acc l -> nondec (option_map normp acc) (map normp l).
Proof.
  induction l as [|p l IH]; intros acc H; cbn [map nondec]; [exact I|]. destruct H as [H1 H2]. split.
  - destruct acc as [q|]; cbn [option_map]; [exact H1|exact I].
  - apply (IH (Some p)). exact H2.
Qed.

(* ---- rows with one row per identity: the row of a scalar field ---- *)
Definition zero_keys (ty : bytes) (ps : list point) : Prop :=
  forall p, In p ps -> p_type p = ty -> norm_key (p_key p) = str_0.

Lemma is_id_typed ty p : norm_key (p_key p) = str_0 -> is_id ty str_0 p = bytes_eqb (p_type p) ty.
Proof.
  intros Hk. unfold is_id, ident_eqb. rewrite Hk. change (norm_key str_0) with str_0. rewrite bytes_eqb_refl, andb_true_r. reflexivity.
Qed.

Lemma typed_sel ty ps : zero_keys ty ps -> sel ty str_0 ps = typed ty ps.
Proof.
  intros Hz. unfold sel, typed. apply filter_ext_in. intros p Hp.
  destruct (bytes_eqb (p_type p) ty) eqn:Et.
  - apply bytes_eqb_eq in Et. rewrite is_id_typed by (apply Hz; assumption). subst ty. apply bytes_eqb_refl.
  - unfold is_id, ident_eqb. rewrite Et. reflexivity.
Qed.

Lemma zero_keys_normp ty ps : zero_keys ty ps -> zero_keys ty (map normp ps).
Proof.
  intros Hz p Hp Ht. apply in_map_iff in Hp. destruct Hp as (q & <- & Hq). cbn. rewrite norm_key_idem. apply Hz; assumption.
Qed.

Lemma typed_map_normp ty ps : typed ty (map normp ps) = map normp (typed ty ps).
Proof.
  induction ps as [|p ps IH]; cbn [map typed filter]; [reflexivity|].
  change (p_type (normp p)) with (p_type p). destruct (bytes_eqb (p_type p) ty); cbn [map]; fold (typed ty ps); fold (typed ty (map normp ps)); rewrite IH; reflexivity.
Qed.

(* at most one row of the type, so the last one in any order is the one lookup finds *)
Lemma typed_unique ty rows : nodup_rows rows -> zero_keys ty rows ->
  typed ty rows = match lookup rows ty str_0 with Some p => [p] | None => [] end.
Proof.
  induction rows as [|q rows IH]; intros ND Hz; [reflexivity|].
  cbn [nodup_rows] in ND. destruct ND as [Hq ND].
  assert (Hz' : zero_keys ty rows) by (intros p Hp; apply Hz; right; exact Hp).
  cbn [typed filter]. rewrite lookup_cons. fold (typed ty rows).
  destruct (bytes_eqb (p_type q) ty) eqn:Et.
  - assert (Eq : is_id ty str_0 q = true).
    { apply bytes_eqb_eq in Et. rewrite is_id_typed by (apply Hz; [left; reflexivity|exact Et]). subst ty. apply bytes_eqb_refl. }
    rewrite Eq. f_equal.
    (* no other row of the type *)
    destruct (typed ty rows) as [|r rest] eqn:Er; [reflexivity|exfalso].
    assert (Hr : In r (typed ty rows)) by (rewrite Er; left; reflexivity).
    apply filter_In in Hr. destruct Hr as [Hin Hrt].
    specialize (Hq r Hin). unfold same_ident, ident_eqb in Hq.
    apply bytes_eqb_eq in Et, Hrt.
    rewrite (Hz q (or_introl eq_refl) Et), (Hz' r Hin Hrt), Et, Hrt, !bytes_eqb_refl in Hq. discriminate.
  - assert (Eq : is_id ty str_0 q = false) by (unfold is_id, ident_eqb; rewrite Et; reflexivity).
    rewrite Eq. apply IH; assumption.
Qed.

Lemma last_opt_single (o : option point) : last_opt (match o with Some p => [p] | None => [] end) None = o.
Proof. destruct o; reflexivity. Qed.

Lemma typed_perm ty l l' : Permutation l l' -> Permutation (typed ty l) (typed ty l').
Proof.
  induction 1 as [|x l l' HP IH|x y l|l l' l'' H1 IH1 H2 IH2]; cbn [typed filter].
  - constructor.
  - destruct (bytes_eqb (p_type x) ty); [constructor|]; exact IH.
  - destruct (bytes_eqb (p_type x) ty), (bytes_eqb (p_type y) ty); try apply Permutation_refl. constructor.
  - eapply Permutation_trans; eassumption.
Qed.

Lemma perm_short (l l' : list point) o : Permutation l l' -> l = match o with Some p => [p] | None => [] end -> l' = l.
Proof.
  intros HP ->. destruct o as [p|].
  - apply Permutation_length_1_inv in HP. exact HP.
  - apply Permutation_nil in HP. exact HP.
Qed.

Lemma last_typed_sorted ty rows : nodup_rows rows -> zero_keys ty rows ->
  last_opt (typed ty (sort_points rows)) None = lookup rows ty str_0.
Proof.
  intros ND Hz.
  assert (E : typed ty (sort_points rows) = typed ty rows).
  { eapply perm_short; [apply typed_perm, Permutation_sym, sort_by_perm|apply typed_unique; assumption]. }
  rewrite E, typed_unique by assumption. apply last_opt_single.
Qed.

Lemma normp_fix p : key_ok p -> normp p = p.
Proof. intros H. unfold normp. rewrite norm_key_ok by exact H. destruct p; reflexivity. Qed.

Lemma find_in {X} (f : X -> bool) l x : find f l = Some x -> In x l /\ f x = true.
Proof. apply find_some. Qed.

Lemma no_id ty k ps : zero_keys ty ps -> k <> [] -> bytes_eqb k str_0 = false ->
  forall q, In q ps -> is_id ty k q = false.
Proof.
  intros Hz Hk Hk0 q Hq. unfold is_id, ident_eqb. destruct (bytes_eqb (p_type q) ty) eqn:Et; [|reflexivity].
  apply bytes_eqb_eq in Et. rewrite (Hz q Hq Et), (norm_key_ok k Hk), bytes_eqb_sym. exact Hk0.
Qed.

Lemma lookup_none_of rows t k : (forall q, In q rows -> is_id t k q = false) -> lookup rows t k = None.
Proof.
  intros H. unfold lookup. destruct (find (is_id t k) rows) as [q|] eqn:E; [|reflexivity].
  apply find_some in E. destruct E as [Hin Hid]. rewrite (H q Hin) in Hid. discriminate.
Qed.

Lemma sel_nil_of ps t k : (forall q, In q ps -> is_id t k q = false) -> sel t k ps = [].
Proof.
  intros H. unfold sel. induction ps as [|q ps IH]; [reflexivity|]. cbn [filter].
  rewrite (H q (or_introl eq_refl)). apply IH. intros r Hr. apply H. right. exact Hr.
Qed.

Lemma lookup_normp_fix rows t k : keys_norm rows -> option_map normp (lookup rows t k) = lookup rows t k.
Proof.
  intros KN. destruct (lookup rows t k) as [p|] eqn:E; [|reflexivity]. cbn [option_map]. f_equal. apply normp_fix.
  apply find_some in E. destruct E as [Hin _]. unfold keys_norm in KN. rewrite Forall_forall in KN. apply KN. exact Hin.
Qed.

(* ---- the theorem ---- *)
Section Agree.
Variable A : Type.
Variable g : point -> A.
Variable z : A.
Hypothesis g_normp : forall p, g (normp p) = g p.

Theorem fold_agrees_field st ops id ty :
  nodes_ok st ->
  let rows := node_rows (s_nodes st) id in
  let told := accepted_node st ops id in              (* every accepted batch written to the node, in order *)
  zero_keys ty rows -> zero_keys ty told ->
  nondec (lookup rows ty str_0) (typed ty told) ->
  field A g z (sort_points (node_rows (s_nodes (Store.ProofsTop.run st ops)) id)) ty = field A g z (sort_points rows ++ told) ty.
Proof.
  intros RO rows told Hzr Hzt Hnd.
  destruct (RO id) as [KN ND]. fold rows in KN, ND.
  assert (RO' := Store.ProofsTop.run_nodes_ok ops st RO). destruct (RO' id) as [KN' ND'].
  set (rows' := node_rows (s_nodes (Store.ProofsTop.run st ops)) id) in *.
  assert (Hztn : zero_keys ty (map normp told)) by (apply zero_keys_normp; exact Hzt).
  (* what the store holds for (ty, "0") *)
  assert (L : lookup rows' ty str_0 = last_opt (map normp (typed ty told)) (lookup rows ty str_0)).
  { unfold rows'. rewrite (newest_wins_node ops st id ty str_0 RO). fold rows told.
    rewrite (typed_sel ty (map normp told)) by exact Hztn.
    rewrite typed_map_normp. apply fold_newer_nondec.
    rewrite <- (lookup_normp_fix rows ty str_0 KN). apply nondec_map_normp. exact Hnd. }
  (* every row of the type in the new rows has key "0" *)
  assert (Hz' : zero_keys ty rows').
  { intros p Hp Ht.
    assert (Kp : key_ok p) by (unfold keys_norm in KN'; rewrite Forall_forall in KN'; apply KN'; exact Hp).
    rewrite norm_key_ok by exact Kp.
    destruct (bytes_eqb (p_key p) str_0) eqn:Ek; [apply bytes_eqb_eq; exact Ek|exfalso].
    assert (N : lookup rows' ty (p_key p) = None).
    { unfold rows'. rewrite (newest_wins_node ops st id ty (p_key p) RO). fold rows told.
      rewrite (sel_nil_of (map normp told)) by (apply no_id; assumption).
      rewrite (lookup_none_of rows) by (apply no_id; assumption). reflexivity. }
    unfold lookup in N. apply (find_none _ _ N) in Hp.
    unfold is_id, ident_eqb in Hp. rewrite Ht, !bytes_eqb_refl in Hp. discriminate. }
  rewrite !field_last, typed_app, last_opt_app.
  rewrite (last_typed_sorted ty rows' ND' Hz'), (last_typed_sorted ty rows ND Hzr), L.
  rewrite <- (read_normp A g z g_normp (last_opt (typed ty told) _)), last_opt_map, (lookup_normp_fix rows ty str_0 KN).
  reflexivity.
Qed.
End Agree.

(* the two scalar fields of the decoder model *)
Lemma field_text_is ps ty : field_text ps ty = field bytes p_text [] ps ty.
Proof. reflexivity. Qed.
Lemma field_val_is ps ty : field_val ps ty = field N p_val 0%N ps ty.
Proof. reflexivity. Qed.

Theorem fold_agrees_text st ops id ty :
  nodes_ok st ->
  let rows := node_rows (s_nodes st) id in
  let told := accepted_node st ops id in
  zero_keys ty rows -> zero_keys ty told -> nondec (lookup rows ty str_0) (typed ty told) ->
  field_text (sort_points (node_rows (s_nodes (Store.ProofsTop.run st ops)) id)) ty = field_text (sort_points rows ++ told) ty.
Proof. intros. rewrite !field_text_is. apply fold_agrees_field; auto. Qed.

Theorem fold_agrees_val st ops id ty :
  nodes_ok st ->
  let rows := node_rows (s_nodes st) id in
  let told := accepted_node st ops id in
  zero_keys ty rows -> zero_keys ty told -> nondec (lookup rows ty str_0) (typed ty told) ->
  field_val (sort_points (node_rows (s_nodes (Store.ProofsTop.run st ops)) id)) ty = field_val (sort_points rows ++ told) ty.
Proof. intros. rewrite !field_val_is. apply fold_agrees_field; auto. Qed.
