(* Client manager (C07, C08): executable model of client/manager.go
   (scanHelper, scan, the Run loop's events, the per-client up.<id>.> callback)
   with the repair of finding F6 (no early return from scan), the executable
   specifications (placements, echo filter, overlap) and the two case checkers.
   No proofs here. *)
From Verif Require Import Base.Bytes Base.Val Store.Model Store.Check.
Local Open Scope N_scope.

Definition str_group : bytes := [103;114;111;117;112].
Definition str_description : bytes := [100;101;115;99;114;105;112;116;105;111;110].
Definition str_value : bytes := [118;97;108;117;101].
Definition str_role : bytes := [114;111;108;101].
Definition str_kid : bytes := [99;48;55;75;105;100].          (* "c07Kid": child type of the instrumented client type *)
Definition dash : N := 45.

(* ================= what a scan sees ================= *)

(* value of the edge's tombstone point (Points.Find(tombstone, "")), 0 when absent *)
Definition view_tomb (v : edge_view) : N :=
  match find (fun p => bytes_eqb (p_type p) str_tombstone && bytes_eqb (p_key p) str_0) (v_epts v) with
  | Some p => p_val p
  | None => 0
  end.
(* GetNodes(..., includeDel = false) skips an edge iff IsTombstone(), i.e. iff the value is exactly 1 *)
Definition gn_live (v : edge_view) : bool := negb (f64_is_one (view_tomb v)).
(* the store's live-edge predicate (up(): math.Mod(value, 2) == 0); both agree on the values 0, 1, 2 *)
Definition view_live (v : edge_view) : bool := f64_even (view_tomb v).

(* GetNodes(parent, "all", typ, false) *)
Definition get_nodes (vs : list edge_view) (parent : bytes) (typ : option bytes) : list edge_view :=
  filter (fun v => bytes_eqb (v_up v) parent && gn_live v &&
                   match typ with None => true | Some t => bytes_eqb (v_type v) t end) vs.

(* ---------- data.Decode into the instrumented client type ----------
   type c07Node { ID node:"id"; Parent node:"parent"; Description point:"description"; Value float64 point:"value";
                  Role edgepoint:"role"; Kids []c07Kid child:"c07Kid" },  c07Kid { ID; Parent; Description; Role }.
   A scalar field takes every point of its type in order (the last one wins); a point whose
   Tombstone count is odd sets the zero value. *)
Record kidcfg := mkKid { k_id : bytes; k_desc : bytes; k_role : bytes }.
Record config := mkCfg { cf_id : bytes; cf_parent : bytes; cf_desc : bytes; cf_value : N; cf_role : bytes; cf_kids : list kidcfg }.

Definition pt_deleted (p : point) : bool := (Z.rem (p_tomb p) 2 =? 1)%Z.
Definition field_text (ps : list point) (ty : bytes) : bytes :=
  fold_left (fun acc p => if bytes_eqb (p_type p) ty then (if pt_deleted p then [] else p_text p) else acc) ps [].
Definition field_val (ps : list point) (ty : bytes) : N :=
  fold_left (fun acc p => if bytes_eqb (p_type p) ty then (if pt_deleted p then 0 else p_val p) else acc) ps 0.

Definition kid_of (v : edge_view) : kidcfg :=
  mkKid (v_down v) (field_text (v_npts v) str_description) (field_text (v_epts v) str_role).
Definition kid_leb (a b : kidcfg) : bool := bytes_leb (k_id a) (k_id b).

(* newClientState: the node found by the scan, its children fetched with GetNodes(id, "all", "", false), decoded *)
Definition cfg_of (vs : list edge_view) (v : edge_view) : config :=
  mkCfg (v_down v) (v_up v) (field_text (v_npts v) str_description) (field_val (v_npts v) str_value)
        (field_text (v_epts v) str_role)
        (sort_by kid_leb (map kid_of (filter (fun k => bytes_eqb (v_type k) str_kid) (get_nodes vs (v_down v) None)))).

Definition kid_eqb (a b : kidcfg) : bool :=
  bytes_eqb (k_id a) (k_id b) && bytes_eqb (k_desc a) (k_desc b) && bytes_eqb (k_role a) (k_role b).
Definition cfg_eqb (a b : config) : bool :=
  bytes_eqb (cf_id a) (cf_id b) && bytes_eqb (cf_parent a) (cf_parent b) && bytes_eqb (cf_desc a) (cf_desc b) &&
  (cf_value a =? cf_value b) && bytes_eqb (cf_role a) (cf_role b) && list_eqb kid_eqb (cf_kids a) (cf_kids b).

(* ---------- scanHelper ---------- *)
(* Go: nodes = append(nodes, children...); for each parent type, for each node p of it under id:
        c := scanHelper(p.ID, nodes); nodes = append(nodes, c...)
   (the accumulator is handed down and appended again: entries repeat; scan skips keys it already has).
   The recursion has no bound in the code; fuel |vs|+1 is enough on the acyclic graphs the store keeps (C05). *)
Fixpoint scan_helper (f : nat) (vs : list edge_view) (T : bytes) (PT : list bytes) (id : bytes)
         (nodes : list edge_view) : list edge_view :=
  let nodes := nodes ++ get_nodes vs id (Some T) in
  match f with
  | O => nodes
  | S f' =>
      fold_left (fun nodes pt =>
                   fold_left (fun nodes p => nodes ++ scan_helper f' vs T PT (v_down p) nodes)
                             (get_nodes vs id (Some pt)) nodes)
                PT nodes
  end.

Record placement := mkPl { pl_parent : bytes; pl_id : bytes; pl_cfg : config }.
Definition mapkey (parent id : bytes) : bytes := parent ++ [dash] ++ id.
Definition pl_key (p : placement) : bytes := mapkey (pl_parent p) (pl_id p).
Definition pl_of (vs : list edge_view) (v : edge_view) : placement := mkPl (v_up v) (v_down v) (cfg_of vs v).

(* NewManager: parentTypes = append(parentTypes, "group") *)
Definition scan_nodes (vs : list edge_view) (root T : bytes) (PT : list bytes) : list edge_view :=
  scan_helper (S (length vs)) vs T (PT ++ [str_group]) root [].
Definition scan_view (vs : list edge_view) (root T : bytes) (PT : list bytes) : list placement :=
  map (pl_of vs) (scan_nodes vs root T PT).

(* ================= the manager as an event-driven state machine ================= *)
Record cstate := mkCS { cs_key : bytes; cs_pl : placement; cs_stopping : bool }.
Record mstate := mkM { m_clients : list cstate; m_stopping : bool; m_done : bool }.
Definition m_init : mstate := mkM [] false false.

Inductive upkind := UTombstone | UNodeType.
Inductive event :=
| Scan (view : list placement)                 (* node-type point on up.root.>, once a minute *)
| UpEdge (k : bytes) (u : upkind)              (* stop request from the subscription of client k *)
| ClientExited (k : bytes) (view : list placement)  (* chDeleteCS: delete, then rescan (view = what that scan finds) *)
| Stop.
Inductive action := AStart (p : placement) | AStopReq (k : bytes) | AExit (k : bytes).

Definition has_key (k : bytes) (cl : list cstate) : bool := existsb (fun c => bytes_eqb (cs_key c) k) cl.
Definition in_view (k : bytes) (view : list placement) : bool := existsb (fun p => bytes_eqb (pl_key p) k) view.
Definition set_stopping (c : cstate) : cstate := mkCS (cs_key c) (cs_pl c) true.

(* first loop of scan: a client for every placement whose key is not in the map *)
Fixpoint scan_start (cl : list cstate) (view : list placement) : list cstate * list action :=
  match view with
  | [] => (cl, [])
  | p :: view' =>
      if has_key (pl_key p) cl then scan_start cl view'
      else let '(cl', a) := scan_start (cl ++ [mkCS (pl_key p) p false]) view' in (cl', AStart p :: a)
  end.
(* second loop: stop every client whose key was not found (stop is idempotent: sync.Once) *)
Definition scan_stop (cl : list cstate) (view : list placement) : list cstate * list action :=
  (map (fun c => if in_view (cs_key c) view then c else set_stopping c) cl,
   map (fun c => AStopReq (cs_key c)) (filter (fun c => negb (in_view (cs_key c) view)) cl)).

Definition do_scan (st : mstate) (view : list placement) : mstate * list action :=
  let '(cl1, a1) := scan_start (m_clients st) view in
  let '(cl2, a2) := scan_stop cl1 view in
  (mkM cl2 (m_stopping st) (m_done st), a1 ++ a2).

Definition step (st : mstate) (e : event) : mstate * list action :=
  if m_done st then (st, []) else
  match e with
  | Scan view => if m_stopping st then (st, []) else do_scan st view
  | UpEdge k _ =>
      if has_key k (m_clients st)
      then (mkM (map (fun c => if bytes_eqb (cs_key c) k then set_stopping c else c) (m_clients st)) (m_stopping st) false,
            [AStopReq k])
      else (st, [])
  | ClientExited k view =>
      (* clientState.run returns only after a stop request *)
      if existsb (fun c => bytes_eqb (cs_key c) k && cs_stopping c) (m_clients st) then
        let cl' := filter (fun c => negb (bytes_eqb (cs_key c) k)) (m_clients st) in
        if m_stopping st
        then (mkM cl' true (match cl' with [] => true | _ => false end), [AExit k])
        else let '(st', a) := do_scan (mkM cl' false false) view in (st', AExit k :: a)
      else (st, [])
  | Stop =>
      if m_stopping st then (st, [])
      else (mkM (map set_stopping (m_clients st)) true (match m_clients st with [] => true | _ => false end),
            map (fun c => AStopReq (cs_key c)) (m_clients st))
  end.

Fixpoint run (st : mstate) (es : list event) : mstate * list action :=
  match es with
  | [] => (st, [])
  | e :: es' => let '(st1, a1) := step st e in let '(st2, a2) := run st1 es' in (st2, a1 ++ a2)
  end.

(* ================= the per-client callback ================= *)
(* strings.Split(subject, ".") *)
Definition split_on (d : N) (s : bytes) : list bytes :=
  fold_right (fun c acc => if c =? d then [] :: acc
                           else match acc with h :: t => (c :: h) :: t | [] => [[c]] end) [[]] s.

Inductive dresult :=
| DPoints (node : bytes) (pts : list point)
| DEdgePoints (node parent : bytes) (pts : list point)
| DRestart (u : upkind)
| DDropped.

Definition own_point (c node : bytes) (p : point) : bool :=
  (bytes_eqb (p_origin p) [] && bytes_eqb node c) || bytes_eqb (p_origin p) c.

Definition restart_of (p : point) : option upkind :=
  if bytes_eqb (p_type p) str_tombstone && f64_is_one (p_val p) then Some UTombstone
  else if (bytes_eqb (p_type p) str_tombstone && f64_is_zero (p_val p)) || bytes_eqb (p_type p) str_nodeType
       then Some UNodeType
       else None.
Fixpoint first_restart (pts : list point) : option upkind :=
  match pts with
  | [] => None
  | p :: pts' => match restart_of p with Some u => Some u | None => first_restart pts' end
  end.

(* c = id of the client's node *)
Definition deliver (c : bytes) (subject : bytes) (pts : list point) : dresult :=
  match split_on dot subject with
  | [_; _; node] => if existsb (own_point c node) pts then DDropped else DPoints node pts
  | [_; _; node; parent] =>
      match first_restart pts with Some u => DRestart u | None => DEdgePoints node parent pts end
  | _ => DDropped
  end.

(* the subscription up.<c>.> *)
Definition sub_match (c : bytes) (subject : bytes) : bool :=
  match split_on dot subject with
  | a :: b :: _ :: _ => bytes_eqb a str_up && bytes_eqb b c
  | _ => false
  end.

Inductive cb := CbPoints (node : bytes) (pts : list point) | CbEdge (node parent : bytes) (pts : list point).

(* callbacks made for a stream of messages, up to the first restart (true = a restart was requested) *)
Fixpoint deliver_all (c : bytes) (msgs : list (bytes * list point)) : list cb * option upkind :=
  match msgs with
  | [] => ([], None)
  | (s, pts) :: msgs' =>
      if sub_match c s then
        match deliver c s pts with
        | DPoints n ps => let '(l, r) := deliver_all c msgs' in (CbPoints n ps :: l, r)
        | DEdgePoints n p ps => let '(l, r) := deliver_all c msgs' in (CbEdge n p ps :: l, r)
        | DRestart u => ([], Some u)
        | DDropped => deliver_all c msgs'
        end
      else deliver_all c msgs'
  end.

(* ================= executable specifications ================= *)

(* ---- C07: what should be running ---- *)
(* holders: the root and everything reachable from it through live edges into nodes of a parent type *)
Definition holder_step (vs : list edge_view) (PT : list bytes) (S : list bytes) : list bytes :=
  S ++ map v_down (filter (fun v => mem_bytes (v_up v) S && view_live v && mem_bytes (v_type v) PT) vs).
Fixpoint iter {A} (n : nat) (f : A -> A) (x : A) : A := match n with O => x | S n' => iter n' f (f x) end.
Definition holders (vs : list edge_view) (root : bytes) (PT : list bytes) : list bytes :=
  iter (S (length vs)) (holder_step vs PT) [root].
(* placements: live edges from a holder into a node of the managed type *)
Definition placements (vs : list edge_view) (root T : bytes) (PT : list bytes) : list edge_view :=
  filter (fun v => mem_bytes (v_up v) (holders vs root (str_group :: PT)) && view_live v && bytes_eqb (v_type v) T) vs.

(* the configuration a client placed at v must have been constructed with *)
Definition spec_kids (vs : list edge_view) (id : bytes) : list edge_view :=
  filter (fun k => bytes_eqb (v_up k) id && view_live k && bytes_eqb (v_type k) str_kid) vs.
Definition spec_cfg (vs : list edge_view) (v : edge_view) : config :=
  mkCfg (v_down v) (v_up v) (field_text (v_npts v) str_description) (field_val (v_npts v) str_value)
        (field_text (v_epts v) str_role) (sort_by kid_leb (map kid_of (spec_kids vs (v_down v)))).

(* ---- C07: no two clients for one key at a time, read off a log of starts and exits ---- *)
Inductive logent := LgStart (k : bytes) | LgExit (k : bytes).
Fixpoint remove_key (k : bytes) (l : list bytes) : list bytes :=
  match l with
  | [] => []
  | x :: l' => if bytes_eqb x k then l' else x :: remove_key k l'
  end.
Fixpoint overlap_free (active : list bytes) (l : list logent) : bool :=
  match l with
  | [] => true
  | LgStart k :: l' => negb (mem_bytes k active) && overlap_free (k :: active) l'
  | LgExit k :: l' => overlap_free (remove_key k active) l'
  end.
Fixpoint active_after (active : list bytes) (l : list logent) : list bytes :=
  match l with
  | [] => active
  | LgStart k :: l' => active_after (k :: active) l'
  | LgExit k :: l' => active_after (remove_key k active) l'
  end.
Definition log_of_actions (a : list action) : list logent :=
  flat_map (fun x => match x with AStart p => [LgStart (pl_key p)] | AExit k => [LgExit k] | AStopReq _ => [] end) a.

(* ---- C08: the echo filter, for a batch of one author o written to node x, seen by the client of node c ---- *)
Definition foreign (c x o : bytes) : bool := negb (bytes_eqb o [] && bytes_eqb x c) && negb (bytes_eqb o c).

Definition single_origin (pts : list point) : option bytes :=
  match pts with
  | [] => None
  | p :: pts' => if forallb (fun q => bytes_eqb (p_origin q) (p_origin p)) pts' then Some (p_origin p) else None
  end.
Definition spec_restart (pts : list point) : bool :=
  existsb (fun p => bytes_eqb (p_type p) str_nodeType ||
                    (bytes_eqb (p_type p) str_tombstone && (f64_is_zero (p_val p) || f64_is_one (p_val p)))) pts.

Definition cb_eqb (a b : cb) : bool :=
  match a, b with
  | CbPoints n ps, CbPoints n' ps' => bytes_eqb n n' && points_eqb ps ps'
  | CbEdge n p ps, CbEdge n' p' ps' => bytes_eqb n n' && bytes_eqb p p' && points_eqb ps ps'
  | _, _ => false
  end.

(* the callbacks [obs] of the client of node c are the messages published on up.<c>.* in order, without the
   batches it authored; [gone]: the client was stopped during the step (it may have missed a tail) *)
Fixpoint spec_match (c : bytes) (gone : bool) (msgs : list (bytes * list point)) (obs : list cb) : bool :=
  match msgs with
  | [] => match obs with [] => true | _ => false end
  | (s, pts) :: msgs' =>
      if negb (sub_match c s) then spec_match c gone msgs' obs else
      match split_on dot s with
      | [_; _; x] =>
          match single_origin pts with
          | Some o =>
              if foreign c x o
              then match obs with
                   | o1 :: obs' => cb_eqb o1 (CbPoints x pts) && spec_match c gone msgs' obs'
                   | [] => gone
                   end
              else spec_match c gone msgs' obs
          | None =>       (* batch of mixed authorship (or empty): outside the statement, either way is accepted *)
              match obs with
              | o1 :: obs' => (cb_eqb o1 (CbPoints x pts) && spec_match c gone msgs' obs') || spec_match c gone msgs' obs
              | [] => spec_match c gone msgs' obs
              end
          end
      | [_; _; x; p] =>
          if spec_restart pts then gone
          else match obs with
               | o1 :: obs' => cb_eqb o1 (CbEdge x p pts) && spec_match c gone msgs' obs'
               | [] => gone
               end
      | _ => spec_match c gone msgs' obs
      end
  end.

(* ================= cases ================= *)
Record opx := mkOpx { ox_op : op; ox_reply : N; ox_pubs : list (bytes * list point) }.
Inductive lev := LNew (k : bytes) (i : N) (c : config) | LExit (k : bytes) (i : N) | LStop (k : bytes) (i : N).
Record running := mkRun { r_key : bytes; r_inst : N; r_fold : config; r_store : option config }.
Record stepx := mkStepx {
  sx_kind : N;                       (* 0 one request, settled; 1 batch of data writes, settled; 2 rapid burst *)
  sx_ops : list opx;
  sx_dump : list edge_view;
  sx_events : list lev;              (* constructor / Run returned / Stop called, in logical-clock order *)
  sx_running : list running;         (* clients whose Run has not returned at the end of the step, by key *)
  sx_cbs : list (N * list cb) }.     (* callbacks per client instance during the step *)
Record case := mkCase {
  c_root : bytes; c_type : bytes; c_ptypes : list bytes; c_init : list edge_view;
  c_steps : list stepx; c_stop_ret : bool; c_stop_events : list lev;
  c_complete : bool }.               (* every step of the history was carried out and settled (after at most one re-run) *)

(* ---------- decoding ---------- *)
Definition kid_of_val (v : val) : option kidcfg :=
  match v with
  | VL [i; d; r] => i <- get_b i ;; d <- get_b d ;; r <- get_b r ;; Some (mkKid i d r)
  | _ => None
  end.
Definition cfg_of_val (v : val) : option config :=
  match v with
  | VL [i; p; d; x; r; ks] =>
      i <- get_b i ;; p <- get_b p ;; d <- get_b d ;; x <- get_n x ;; r <- get_b r ;; ks <- get_list kid_of_val ks ;;
      Some (mkCfg i p d x r ks)
  | _ => None
  end.
Definition lev_of_val (v : val) : option lev :=
  match v with
  | VL [VN 0; k; i; c] => k <- get_b k ;; i <- get_n i ;; c <- cfg_of_val c ;; Some (LNew k i c)
  | VL [VN 1; k; i] => k <- get_b k ;; i <- get_n i ;; Some (LExit k i)
  | VL [VN 2; k; i] => k <- get_b k ;; i <- get_n i ;; Some (LStop k i)
  | _ => None
  end.
Definition cb_of_val (v : val) : option cb :=
  match v with
  | VL [VN 0; n; ps] => n <- get_b n ;; ps <- points_of_val ps ;; Some (CbPoints n ps)
  | VL [VN 1; n; p; ps] => n <- get_b n ;; p <- get_b p ;; ps <- points_of_val ps ;; Some (CbEdge n p ps)
  | _ => None
  end.
Definition opx_of_val (v : val) : option opx :=
  match v with
  | VL [o; r; pubs] => o <- op_of_val o ;; r <- get_n r ;; pubs <- get_list pub_of_val pubs ;; Some (mkOpx o r pubs)
  | _ => None
  end.
Definition running_of_val (v : val) : option running :=
  match v with
  | VL [k; i; f; s] => k <- get_b k ;; i <- get_n i ;; f <- cfg_of_val f ;; s <- get_opt cfg_of_val s ;; Some (mkRun k i f s)
  | _ => None
  end.
Definition cbs_of_val (v : val) : option (N * list cb) :=
  match v with
  | VL [i; l] => i <- get_n i ;; l <- get_list cb_of_val l ;; Some (i, l)
  | _ => None
  end.
Definition stepx_of_val (v : val) : option stepx :=
  match v with
  | VL [k; ops; dump; evs; run; cbs] =>
      k <- get_n k ;; ops <- get_list opx_of_val ops ;; dump <- views_of_val dump ;; evs <- get_list lev_of_val evs ;;
      run <- get_list running_of_val run ;; cbs <- get_list cbs_of_val cbs ;;
      Some (mkStepx k ops dump evs run cbs)
  | _ => None
  end.
Definition case_of_val (v : val) : option case :=
  match v with
  | VL [root; ty; pts; init; steps; VL [ret; sevs]; cpl] =>
      root <- get_b root ;; ty <- get_b ty ;; pts <- get_list get_b pts ;; init <- views_of_val init ;;
      steps <- get_list stepx_of_val steps ;; ret <- get_bool ret ;; sevs <- get_list lev_of_val sevs ;;
      cpl <- get_bool cpl ;;
      Some (mkCase root ty pts init steps ret sevs cpl)
  | _ => None
  end.

(* ---------- helpers on observations ---------- *)
Definition step_pubs (sx : stepx) : list (bytes * list point) := flat_map ox_pubs (sx_ops sx).
Definition news (evs : list lev) : list (bytes * N * config) :=
  flat_map (fun e => match e with LNew k i c => [(k, i, c)] | _ => [] end) evs.
Definition exits (evs : list lev) : list bytes :=
  flat_map (fun e => match e with LExit k _ => [k] | _ => [] end) evs.
Definition exited_insts (evs : list lev) : list N :=
  flat_map (fun e => match e with LExit _ i => [i] | _ => [] end) evs.
Definition mem_n (x : N) (l : list N) : bool := existsb (N.eqb x) l.
Definition kc_leb (a b : bytes * config) : bool := bytes_leb (fst a) (fst b).
Definition kc_eqb (a b : bytes * config) : bool := bytes_eqb (fst a) (fst b) && cfg_eqb (snd a) (snd b).
Definition sort_keys : list bytes -> list bytes := sort_by bytes_leb.
Definition keys_eqb (a b : list bytes) : bool := list_eqb bytes_eqb (sort_keys a) (sort_keys b).

(* configuration an instance was constructed with, and the kind of the step it was constructed in *)
Fixpoint inst_start (steps : list stepx) (i : N) : option (config * N) :=
  match steps with
  | [] => None
  | sx :: steps' =>
      match find (fun x => snd (fst x) =? i) (news (sx_events sx)) with
      | Some x => Some (snd x, sx_kind sx)
      | None => inst_start steps' i
      end
  end.

Fixpoint nodup_keys (l : list bytes) : bool :=
  match l with [] => true | x :: l' => negb (mem_bytes x l') && nodup_keys l' end.

(* ================= C07 ================= *)
(* the canonical schedule of a settled step: every message published during the step reaches the clients running
   at its start; then a scan of the final store; then every client asked to stop exits and the manager rescans *)
Definition client_node (c : cstate) : bytes := pl_id (cs_pl c).
Definition up_events (cl : list cstate) (msgs : list (bytes * list point)) : list event :=
  flat_map (fun c => match snd (deliver_all (client_node c) msgs) with
                     | Some u => [UpEdge (cs_key c) u]
                     | None => []
                     end) cl.
Fixpoint drain (f : nat) (st : mstate) (view : list placement) : mstate * list action :=
  match f with
  | O => (st, [])
  | S f' =>
      match find cs_stopping (m_clients st) with
      | None => (st, [])
      | Some c => let '(st1, a1) := step st (ClientExited (cs_key c) view) in
                  let '(st2, a2) := drain f' st1 view in (st2, a1 ++ a2)
      end
  end.
Definition model_step (st : mstate) (msgs : list (bytes * list point)) (view : list placement) : mstate * list action :=
  let '(st1, a1) := run st (up_events (m_clients st) msgs ++ [Scan view]) in
  let '(st2, a2) := drain (S (length (m_clients st1))) st1 view in
  (st2, a1 ++ a2).

Definition model_starts (a : list action) : list (bytes * config) :=
  sort_by kc_leb (flat_map (fun x => match x with AStart p => [(pl_key p, pl_cfg p)] | _ => [] end) a).
Definition model_exits (a : list action) : list bytes :=
  sort_keys (flat_map (fun x => match x with AExit k => [k] | _ => [] end) a).
Definition model_running (st : mstate) : list (bytes * config) :=
  sort_by kc_leb (map (fun c => (cs_key c, pl_cfg (cs_pl c))) (m_clients st)).

Definition obs_running (done : list stepx) (sx : stepx) : option (list (bytes * config)) :=
  map_opt (fun r => match inst_start (sx :: done) (r_inst r) with
                    | Some (c, _) => Some (r_key r, c)
                    | None => None
                    end) (sx_running sx).

(* [done]: the steps before, latest first *)
Fixpoint corr07_steps (c : case) (st : mstate) (done : list stepx) (steps : list stepx) : bool :=
  match steps with
  | [] =>
      (* Manager.Stop: every client is stopped, exits, and Run returns *)
      let '(st1, a1) := step st Stop in
      let '(st2, a2) := drain (S (length (m_clients st1))) st1 [] in
      Bool.eqb (c_stop_ret c) (m_done st2) &&
      match done with
      | sx :: _ => if sx_kind sx =? 2 then true
                   else keys_eqb (exits (c_stop_events c)) (model_exits (a1 ++ a2)) &&
                        match news (c_stop_events c) with [] => true | _ => false end
      | [] => true
      end
  | sx :: steps' =>
      let view := scan_view (sx_dump sx) (c_root c) (c_type c) (c_ptypes c) in
      let '(st', a) := model_step st (step_pubs sx) view in
      match obs_running done sx with
      | None => false
      | Some obs =>
          if sx_kind sx =? 2 then
            (* rapid burst: only the final set of keys is determined; carry on from what was observed *)
            keys_eqb (map fst obs) (map fst (model_running st')) &&
            corr07_steps c (mkM (map (fun kc => mkCS (fst kc) (mkPl (cf_parent (snd kc)) (cf_id (snd kc)) (snd kc)) false) obs)
                                false false) (sx :: done) steps'
          else
            list_eqb kc_eqb (sort_by kc_leb (map (fun x => (fst (fst x), snd x)) (news (sx_events sx)))) (model_starts a) &&
            list_eqb bytes_eqb (sort_keys (exits (sx_events sx))) (model_exits a) &&
            list_eqb kc_eqb (sort_by kc_leb obs) (model_running st') &&
            corr07_steps c st' (sx :: done) steps'
      end
  end.
(* a history that could not be carried out (a wait condition of the runner never became true, twice) is a disagreement *)
Definition corr07 (c : case) : bool := c_complete c && corr07_steps c m_init [] (c_steps c).

(* specification, on the observations only *)
Definition log_of_events (evs : list lev) : list logent :=
  flat_map (fun e => match e with LNew k _ _ => [LgStart k] | LExit k _ => [LgExit k] | LStop _ _ => [] end) evs.

Definition find_placement (vs : list edge_view) (root T : bytes) (PT : list bytes) (k : bytes) : option edge_view :=
  find (fun v => bytes_eqb (mapkey (v_up v) (v_down v)) k) (placements vs root T PT).

Fixpoint spec07_steps (c : case) (done : list stepx) (steps : list stepx) : bool :=
  match steps with
  | [] => true
  | sx :: steps' =>
      let pls := placements (sx_dump sx) (c_root c) (c_type c) (c_ptypes c) in
      let keys := map r_key (sx_running sx) in
      (* exactly one running client per placement, none for anything else *)
      nodup_keys keys && keys_eqb keys (map (fun v => mapkey (v_up v) (v_down v)) pls) &&
      (* a client constructed in a settled step was constructed from the node's points and children of that moment *)
      ((sx_kind sx =? 2) ||
       forallb (fun x => match find_placement (sx_dump sx) (c_root c) (c_type c) (c_ptypes c) (fst (fst x)) with
                         | Some v => cfg_eqb (snd x) (spec_cfg (sx_dump sx) v)
                         | None => false
                         end) (news (sx_events sx))) &&
      (* a running client knows the children its node has now (a child added or removed restarts it) *)
      forallb (fun r => match inst_start (sx :: done) (r_inst r) with
                        | Some (cf, k) =>
                            (k =? 2) || (sx_kind sx =? 2) ||
                            list_eqb bytes_eqb (map k_id (cf_kids cf))
                                     (sort_keys (map v_down (spec_kids (sx_dump sx) (cf_id cf))))
                        | None => false
                        end) (sx_running sx) &&
      spec07_steps c (sx :: done) steps'
  end.

Definition all_events (c : case) : list lev := flat_map sx_events (c_steps c) ++ c_stop_events c.
Definition spec07 (c : case) : bool :=
  spec07_steps c [] (c_steps c) &&
  (* two clients for one key never run at the same time *)
  overlap_free [] (log_of_events (all_events c)) &&
  (* stopping the manager stops every client and returns *)
  c_stop_ret c && match active_after [] (log_of_events (all_events c)) with [] => true | _ => false end.

Definition check_case (c : case) : N := code (corr07 c) (spec07 c).
Definition check_val := check_with case_of_val check_case.

(* ================= C08 ================= *)
Definition cbs_of (sx : stepx) (i : N) : list cb :=
  match find (fun x => fst x =? i) (sx_cbs sx) with Some x => snd x | None => [] end.
Fixpoint is_prefix (a b : list cb) : bool :=
  match a, b with
  | [], _ => true
  | x :: a', y :: b' => cb_eqb x y && is_prefix a' b'
  | _, [] => false
  end.
Definition insts_before (prev : option stepx) : list running := match prev with Some sx => sx_running sx | None => [] end.

(* correspondence: the callbacks each running client logged are those the model of the callback makes for the
   messages published during the step *)
Fixpoint corr08_steps (done : list stepx) (steps : list stepx) : bool :=
  match steps with
  | [] => true
  | sx :: steps' =>
      ((sx_kind sx =? 2) ||
       (let before := insts_before (hd_error done) in
        forallb (fun r => match inst_start done (r_inst r) with
                          | Some (cf, _) =>
                              let '(want, rs) := deliver_all (cf_id cf) (step_pubs sx) in
                              let got := cbs_of sx (r_inst r) in
                              match rs with
                              | None => if mem_n (r_inst r) (exited_insts (sx_events sx)) then is_prefix got want || is_prefix want got
                                        else list_eqb cb_eqb got want
                              | Some _ => is_prefix want got
                              end
                          | None => false
                          end) before &&
        (* a client constructed during the step has not been told anything yet *)
        forallb (fun x => mem_n (fst x) (map r_inst before) || match snd x with [] => true | _ => false end) (sx_cbs sx))) &&
      corr08_steps (sx :: done) steps'
  end.
Definition corr08 (c : case) : bool := c_complete c && corr08_steps [] (c_steps c).

(* specification *)
Definition op_points_times (o : op) : list Z := map p_time (op_points o).
Fixpoint nondecreasing (l : list Z) : bool :=
  match l with
  | x :: (y :: _) as l' => (x <=? y)%Z && nondecreasing l'
  | _ => true
  end.
Definition times_of (steps : list stepx) : list Z := flat_map (fun sx => flat_map (fun o => op_points_times (ox_op o)) (sx_ops sx)) steps.

Definition has_cb (x : cb) (l : list cb) : bool := existsb (cb_eqb x) l.

Fixpoint spec08_steps (c : case) (done : list stepx) (steps : list stepx) : bool :=
  match steps with
  | [] => true
  | sx :: steps' =>
      ((sx_kind sx =? 2) ||
       (let before := insts_before (hd_error done) in
        forallb (fun r =>
          match inst_start done (r_inst r) with
          | Some (cf, _) =>
              let cid := cf_id cf in
              let gone := mem_n (r_inst r) (exited_insts (sx_events sx)) in
              let got := cbs_of sx (r_inst r) in
              (* order and exactness against the stream published on up.<c>.* *)
              spec_match cid gone (step_pubs sx) got &&
              (* only its subtree (ties to C06): whatever it is told of lies below its node *)
              forallb (fun x => match x with
                                | CbPoints n _ => mem_bytes cid (ancestors (sx_dump sx) true n)
                                | CbEdge n _ _ => mem_bytes cid (ancestors (sx_dump sx) false n)
                                end) got &&
              (* every foreign batch accepted for a node below it is among them *)
              (gone ||
               forallb (fun o => match ox_op o with
                                 | NodePts x pts =>
                                     match single_origin pts with
                                     | Some og => negb ((ox_reply o =? 0) && mem_bytes cid (ancestors (sx_dump sx) true x) && foreign cid x og)
                                                  || has_cb (CbPoints x pts) got
                                     | None => true
                                     end
                                 | EdgePts _ _ _ => true
                                 end) (sx_ops sx))
          | None => false
          end) before)) &&
      (* folding what it was told (and what it authored) into its start configuration gives what the store holds *)
      (negb (forallb (fun s => negb (sx_kind s =? 2)) (sx :: done) && nondecreasing (times_of (rev (sx :: done)))) ||
       forallb (fun r => match r_store r with Some s => cfg_eqb s (r_fold r) | None => false end) (sx_running sx)) &&
      spec08_steps c (sx :: done) steps'
  end.
Definition spec08 (c : case) : bool := spec08_steps c [] (c_steps c).

Definition check_case08 (c : case) : N := code (corr08 c) (spec08 c).
Definition check_val08 := check_with case_of_val check_case08.
