(* Client manager: proofs about the executable model of Manager/Model.v.
   Part A: the event-driven state machine (scan post-condition, quiescence, no overlap, Stop).
   Part B: scanHelper finds exactly the specified placements.
   Part C: the per-client callback (echo filter, order, only the subtree). *)
From Coq Require Import List NArith ZArith Bool Lia Arith Permutation.
Import ListNotations.
From Verif Require Import Base.Bytes Store.GraphCount Store.GraphWalk Store.Model Store.ProofsRows Store.ProofsHash Store.ProofsTop Store.Check Manager.Model.
Local Open Scope N_scope.

(* ===================================================================== *)
(* Part A: the state machine                                              *)
(* ===================================================================== *)

Definition keys (cl : list cstate) : list bytes := map cs_key cl.
Definition vkeys (view : list placement) : list bytes := map pl_key view.
Definition starts (a : list action) : list placement :=
  flat_map (fun x => match x with AStart p => [p] | _ => [] end) a.
Definition stopreqs (a : list action) : list bytes :=
  flat_map (fun x => match x with AStopReq k => [k] | _ => [] end) a.
Definition client_of (p : placement) : cstate := mkCS (pl_key p) p false.

Lemma has_key_In k cl : has_key k cl = true <-> In k (keys cl).
Proof.
  unfold has_key, keys. rewrite existsb_exists. split.
  - intros (c & Hc & E). apply bytes_eqb_eq in E. subst k. apply in_map. exact Hc.
  - intros H. apply in_map_iff in H as (c & E & Hc). exists c. split; [exact Hc|]. apply bytes_eqb_eq. exact E.
Qed.

Lemma has_key_false k cl : has_key k cl = false <-> ~ In k (keys cl).
Proof. rewrite <- has_key_In. destruct (has_key k cl); split; congruence. Qed.

Lemma in_view_In k view : in_view k view = true <-> In k (vkeys view).
Proof.
  unfold in_view, vkeys. rewrite existsb_exists. split.
  - intros (p & Hp & E). apply bytes_eqb_eq in E. subst k. apply in_map. exact Hp.
  - intros H. apply in_map_iff in H as (p & E & Hp). exists p. split; [exact Hp|]. apply bytes_eqb_eq. exact E.
Qed.

Lemma in_view_false k view : in_view k view = false <-> ~ In k (vkeys view).
Proof. rewrite <- in_view_In. destruct (in_view k view); split; congruence. Qed.

Lemma starts_app a b : starts (a ++ b) = starts a ++ starts b.
Proof. unfold starts. apply flat_map_app. Qed.
Lemma stopreqs_app a b : stopreqs (a ++ b) = stopreqs a ++ stopreqs b.
Proof. unfold stopreqs. apply flat_map_app. Qed.

Lemma in_stopreqs k a : In (AStopReq k) a <-> In k (stopreqs a).
Proof.
  unfold stopreqs. rewrite in_flat_map. split.
  - intros H. exists (AStopReq k). split; [exact H|left; reflexivity].
  - intros (x & Hx & Hk). destruct x; cbn in Hk; try contradiction. destruct Hk as [<-|[]]. exact Hx.
Qed.

(* ---------- first loop of scan ---------- *)
Lemma scan_start_spec : forall view cl cl' a,
  scan_start cl view = (cl', a) ->
  cl' = cl ++ map client_of (starts a) /\
  stopreqs a = [] /\ log_of_actions a = map (fun p => LgStart (pl_key p)) (starts a) /\
  incl (starts a) view /\
  (forall k, In k (vkeys (starts a)) <-> In k (vkeys view) /\ ~ In k (keys cl)) /\
  NoDup (vkeys (starts a)).
Proof.
  induction view as [|p view IH]; intros cl cl' a H; cbn [scan_start] in H.
  - inversion H; subst. cbn. rewrite app_nil_r.
    split; [reflexivity|]. split; [reflexivity|]. split; [reflexivity|]. split; [intros x []|].
    split; [|constructor]. intros k. split; [intros []|intros ([] & _)].
  - destruct (has_key (pl_key p) cl) eqn:Ek.
    + destruct (IH _ _ _ H) as (E1 & E2 & E3 & E4 & E5 & E6).
      split; [exact E1|]. split; [exact E2|]. split; [exact E3|].
      split; [intros x Hx; right; apply E4; exact Hx|]. split; [|exact E6].
      intros k. rewrite E5. cbn. split.
      * intros (Hv & Hn). split; [right; exact Hv|exact Hn].
      * intros ([<-|Hv] & Hn); [apply has_key_In in Ek; contradiction|split; assumption].
    + destruct (scan_start (cl ++ [mkCS (pl_key p) p false]) view) as [cl1 a1] eqn:Es.
      inversion H; subst cl' a; clear H.
      destruct (IH _ _ _ Es) as (E1 & E2 & E3 & E4 & E5 & E6).
      assert (Hk1 : forall k, In k (keys (cl ++ [mkCS (pl_key p) p false])) <-> In k (keys cl) \/ k = pl_key p).
      { intros k. unfold keys. rewrite map_app, in_app_iff. cbn. intuition. }
      apply has_key_false in Ek.
      assert (Est : starts (AStart p :: a1) = p :: starts a1) by reflexivity. rewrite Est.
      split; [rewrite E1, <- app_assoc; reflexivity|]. split; [exact E2|].
      split; [cbn; f_equal; exact E3|].
      split; [intros x [<-|Hx]; [left; reflexivity|right; apply E4; exact Hx]|].
      split.
      * intros k. cbn [vkeys map]. fold (vkeys (starts a1)). fold (vkeys view). cbn [In]. rewrite E5, Hk1. split.
        -- intros [<-|(Hv & Hn)]; [split; [left; reflexivity|exact Ek]|]. split; [right; exact Hv|]. intros Hc. apply Hn. left. exact Hc.
        -- intros ([<-|Hv] & Hn); [left; reflexivity|].
           destruct (bytes_eqb (pl_key p) k) eqn:Epk; [apply bytes_eqb_eq in Epk; left; exact Epk|].
           right. split; [exact Hv|]. intros [Hc|Hc]; [contradiction|]. subst k. rewrite bytes_eqb_refl in Epk. discriminate.
      * cbn [vkeys map]. fold (vkeys (starts a1)). constructor; [|exact E6]. intros Hc. apply E5 in Hc. apply (proj2 Hc), Hk1. right. reflexivity.
Qed.

(* ---------- second loop ---------- *)
Lemma scan_stop_keys cl view : keys (fst (scan_stop cl view)) = keys cl.
Proof.
  unfold scan_stop, keys. cbn [fst]. rewrite map_map. apply map_ext. intros c. destruct (in_view (cs_key c) view); reflexivity.
Qed.

Lemma scan_stop_reqs cl view k :
  In k (stopreqs (snd (scan_stop cl view))) <-> In k (keys cl) /\ ~ In k (vkeys view).
Proof.
  unfold scan_stop. cbn [snd]. rewrite <- in_stopreqs, in_map_iff. split.
  - intros (c & E & Hc). inversion E; subst k. apply filter_In in Hc as (Hc & Hv).
    split; [apply in_map; exact Hc|]. apply in_view_false. destruct (in_view (cs_key c) view); [discriminate|reflexivity].
  - intros (Hk & Hv). apply in_map_iff in Hk as (c & <- & Hc). exists c. split; [reflexivity|].
    apply filter_In. split; [exact Hc|]. apply in_view_false in Hv. rewrite Hv. reflexivity.
Qed.

Lemma scan_stop_log cl view : log_of_actions (snd (scan_stop cl view)) = [] /\ starts (snd (scan_stop cl view)) = [].
Proof.
  unfold scan_stop. cbn [snd]. induction (filter _ cl) as [|c l IH]; [split; reflexivity|].
  cbn. exact IH.
Qed.

Lemma scan_stop_in cl view c' :
  In c' (fst (scan_stop cl view)) <->
  exists c, In c cl /\ cs_key c' = cs_key c /\ cs_pl c' = cs_pl c /\
            cs_stopping c' = (cs_stopping c || negb (in_view (cs_key c) view)).
Proof.
  unfold scan_stop. cbn [fst]. rewrite in_map_iff. split.
  - intros (c & <- & Hc). exists c. split; [exact Hc|]. destruct (in_view (cs_key c) view); cbn.
    + rewrite orb_false_r. auto.
    + rewrite orb_true_r. auto.
  - intros (c & Hc & Ek & Ep & Es). exists c. split; [|exact Hc].
    destruct c' as [k' p' s']; destruct c as [k p s]; cbn in *. subst.
    destruct (in_view k view); cbn; [rewrite orb_false_r|rewrite orb_true_r]; reflexivity.
Qed.

(* ---------- well-formed machine states ---------- *)
Record wfm (st : mstate) : Prop := {
  wfm_nodup : NoDup (keys (m_clients st));
  wfm_key : forall c, In c (m_clients st) -> cs_key c = pl_key (cs_pl c);
  wfm_done : m_done st = true -> m_stopping st = true }.

Lemma wfm_init : wfm m_init.
Proof. split; cbn; [constructor|intros c []|discriminate]. Qed.

Lemma keys_app a b : keys (a ++ b) = keys a ++ keys b.
Proof. apply map_app. Qed.
Lemma keys_client_of l : keys (map client_of l) = vkeys l.
Proof. unfold keys, vkeys. rewrite map_map. reflexivity. Qed.

Lemma NoDup_app_intro {A} (a b : list A) : NoDup a -> NoDup b -> (forall x, In x a -> ~ In x b) -> NoDup (a ++ b).
Proof.
  induction a as [|x a IH]; intros Ha Hb Hd; [exact Hb|]. inversion Ha; subst. cbn. constructor.
  - rewrite in_app_iff. intros [H|H]; [contradiction|]. apply (Hd x); [left; reflexivity|exact H].
  - apply IH; auto. intros y Hy. apply Hd. right. exact Hy.
Qed.

(* what one scan does to the client map *)
Lemma do_scan_spec st view st' a :
  do_scan st view = (st', a) ->
  m_stopping st' = m_stopping st /\ m_done st' = m_done st /\
  keys (m_clients st') = keys (m_clients st) ++ vkeys (starts a) /\
  incl (starts a) view /\ NoDup (vkeys (starts a)) /\
  (forall k, In k (vkeys (starts a)) <-> In k (vkeys view) /\ ~ In k (keys (m_clients st))) /\
  (forall k, In k (stopreqs a) <-> In k (keys (m_clients st)) /\ ~ In k (vkeys view)) /\
  log_of_actions a = map (fun p => LgStart (pl_key p)) (starts a) /\
  (forall c', In c' (m_clients st') <->
     exists c, In c (m_clients st ++ map client_of (starts a)) /\ cs_key c' = cs_key c /\ cs_pl c' = cs_pl c /\
               cs_stopping c' = (cs_stopping c || negb (in_view (cs_key c) view))).
Proof.
  unfold do_scan. destruct (scan_start (m_clients st) view) as [cl1 a1] eqn:E1.
  destruct (scan_stop cl1 view) as [cl2 a2] eqn:E2. intros H. inversion H; subst st' a; clear H. cbn [m_clients m_stopping m_done].
  destruct (scan_start_spec _ _ _ _ E1) as (Hc & Hs & Hl & Hi & Hk & Hn).
  pose proof (scan_stop_keys cl1 view) as Hk2. pose proof (scan_stop_reqs cl1 view) as Hr2.
  pose proof (scan_stop_log cl1 view) as (Hl2 & Hs2). pose proof (scan_stop_in cl1 view) as Hin2.
  rewrite E2 in Hk2, Hr2, Hl2, Hs2, Hin2. cbn [fst snd] in *.
  rewrite starts_app, Hs2, app_nil_r.
  split; [reflexivity|]. split; [reflexivity|].
  split; [rewrite Hk2, Hc, keys_app, keys_client_of; reflexivity|].
  split; [exact Hi|]. split; [exact Hn|]. split; [exact Hk|].
  split.
  { intros k. rewrite stopreqs_app, Hs. cbn [app]. rewrite Hr2, Hc, keys_app, keys_client_of, in_app_iff. split.
    - intros ([H1|H1] & H2); [split; assumption|]. apply Hk in H1. tauto.
    - intros (H1 & H2). split; [left; exact H1|exact H2]. }
  split.
  { unfold log_of_actions in *. rewrite flat_map_app, Hl, Hl2, app_nil_r. reflexivity. }
  intros c'. rewrite Hin2, Hc. reflexivity.
Qed.

Lemma do_scan_wfm st view st' a : wfm st -> do_scan st view = (st', a) -> wfm st'.
Proof.
  intros [Hn Hk Hd] H. destruct (do_scan_spec _ _ _ _ H) as (Es & Ed & Ek & Hi & Hnd & Hks & _ & _ & Hin).
  split.
  - rewrite Ek. apply NoDup_app_intro; auto. intros x Hx Hx'. apply Hks in Hx'. tauto.
  - intros c' Hc'. apply Hin in Hc' as (c & Hc & E1 & E2 & _). rewrite E1, E2.
    apply in_app_iff in Hc as [Hc|Hc]; [apply Hk; exact Hc|].
    apply in_map_iff in Hc as (p & <- & _). reflexivity.
  - rewrite Es, Ed. exact Hd.
Qed.

Lemma keys_filter_nodup k cl :
  NoDup (keys cl) -> NoDup (keys (filter (fun c => negb (bytes_eqb (cs_key c) k)) cl)) /\
  forall k', In k' (keys (filter (fun c => negb (bytes_eqb (cs_key c) k)) cl)) <-> In k' (keys cl) /\ k' <> k.
Proof.
  intros Hn. split.
  - induction cl as [|c cl IH]; [constructor|]. cbn in Hn. inversion Hn; subst. cbn [filter].
    destruct (negb (bytes_eqb (cs_key c) k)); [|apply IH; assumption]. cbn. constructor; [|apply IH; assumption].
    intros Hc. apply H1. unfold keys in *. apply in_map_iff in Hc as (c' & E & Hc'). apply filter_In in Hc' as (Hc' & _).
    rewrite <- E. apply in_map. exact Hc'.
  - intros k'. unfold keys. rewrite !in_map_iff. split.
    + intros (c & E & Hc). apply filter_In in Hc as (Hc & Hb). split; [exists c; auto|].
      subst k'. intros E. rewrite E, bytes_eqb_refl in Hb. discriminate.
    + intros ((c & E & Hc) & Hne). exists c. split; [exact E|]. apply filter_In. split; [exact Hc|].
      destruct (bytes_eqb (cs_key c) k) eqn:Eb; [|reflexivity]. apply bytes_eqb_eq in Eb. congruence.
Qed.

Lemma step_wfm st e st' a : wfm st -> step st e = (st', a) -> wfm st'.
Proof.
  intros W H. unfold step in H. destruct (m_done st) eqn:Ed; [inversion H; subst; exact W|].
  destruct W as [Hn Hk Hd]. destruct e as [view|k u|k view|].
  - destruct (m_stopping st) eqn:Es; [inversion H; subst; split; auto|]. eapply do_scan_wfm; [split; eauto|exact H].
  - destruct (has_key k (m_clients st)); inversion H; subst; clear H; [|split; auto]. split; cbn.
    + unfold keys in *. rewrite map_map. erewrite map_ext; [exact Hn|]. intros c. destruct (bytes_eqb (cs_key c) k); reflexivity.
    + intros c Hc. apply in_map_iff in Hc as (c0 & <- & Hc0). destruct (bytes_eqb (cs_key c0) k); cbn; apply Hk; exact Hc0.
    + discriminate.
  - destruct (existsb _ (m_clients st)); [|inversion H; subst; split; auto].
    set (cl' := filter (fun c => negb (bytes_eqb (cs_key c) k)) (m_clients st)) in *.
    assert (W' : forall s d, (d = true -> s = true) -> wfm (mkM cl' s d)).
    { intros s d Hsd. split; cbn; [apply keys_filter_nodup; exact Hn| |exact Hsd].
      intros c Hc. apply filter_In in Hc as (Hc & _). apply Hk. exact Hc. }
    destruct (m_stopping st) eqn:Es.
    + inversion H; subst. apply W'. reflexivity.
    + destruct (do_scan (mkM cl' false false) view) as [st1 a1] eqn:E1. inversion H; subst.
      eapply do_scan_wfm; [|exact E1]. apply W'. discriminate.
  - destruct (m_stopping st) eqn:Es; inversion H; subst; clear H; [split; auto|]. split; cbn.
    + unfold keys in *. rewrite map_map. exact Hn.
    + intros c Hc. apply in_map_iff in Hc as (c0 & <- & Hc0). cbn. apply Hk. exact Hc0.
    + reflexivity.
Qed.

Lemma run_app st a b :
  run st (a ++ b) = let '(s1, a1) := run st a in let '(s2, a2) := run s1 b in (s2, a1 ++ a2).
Proof.
  revert st. induction a as [|e a IH]; intros st; cbn [run app].
  - destruct (run st b). reflexivity.
  - destruct (step st e) as [st1 a1]. rewrite IH. destruct (run st1 a) as [s1 x1]. destruct (run s1 b) as [s2 x2].
    rewrite app_assoc. reflexivity.
Qed.

Lemma run_wfm es : forall st, wfm st -> wfm (fst (run st es)).
Proof.
  induction es as [|e es IH]; intros st W; cbn [run]; [exact W|].
  destruct (step st e) as [st1 a1] eqn:E. specialize (IH st1 (step_wfm _ _ _ _ W E)).
  destruct (run st1 es). exact IH.
Qed.

(* the stopping flag of the manager is never reset *)
Lemma step_stopping st e : m_stopping st = true -> m_stopping (fst (step st e)) = true.
Proof.
  intros Hs. unfold step. destruct (m_done st); [exact Hs|]. destruct e as [view|k u|k view|]; rewrite ?Hs; cbn [fst]; auto.
  - destruct (has_key k (m_clients st)); cbn; [reflexivity|exact Hs].
  - destruct (existsb _ (m_clients st)); cbn; [reflexivity|exact Hs].
Qed.

Lemma run_stopping es : forall st, m_stopping st = true -> m_stopping (fst (run st es)) = true.
Proof.
  induction es as [|e es IH]; intros st Hs; cbn [run]; [exact Hs|].
  pose proof (step_stopping st e Hs) as H1. destruct (step st e) as [st1 a1]. cbn [fst] in H1.
  specialize (IH st1 H1). destruct (run st1 es). exact IH.
Qed.

(* ---------- the post-condition of one scan ---------- *)
Theorem scan_post_proof : forall st view st' acts,
  m_done st = false -> m_stopping st = false -> step st (Scan view) = (st', acts) ->
  let started := vkeys (starts acts) in
  (forall k, In k started <-> In k (vkeys view) /\ ~ In k (keys (m_clients st))) /\
  (forall k, In (AStopReq k) acts <-> In k (keys (m_clients st)) /\ ~ In k (vkeys view)) /\
  NoDup started /\ incl (starts acts) view /\
  keys (m_clients st') = keys (m_clients st) ++ started.
Proof.
  intros st view st' acts Hd Hs H. unfold step in H. rewrite Hd, Hs in H.
  destruct (do_scan_spec _ _ _ _ H) as (_ & _ & Ek & Hi & Hn & Hks & Hr & _ & _).
  cbv zeta. split; [exact Hks|]. split; [|split; [exact Hn|split; [exact Hi|exact Ek]]].
  intros k. rewrite in_stopreqs. apply Hr.
Qed.

(* ---------- quiescence ---------- *)
(* events that can occur while the store stays at the state whose scan finds V:
   scans (triggered or periodic) and client exits followed by the rescan *)
Definition at_view (V : list placement) (e : event) : Prop := e = Scan V \/ exists k, e = ClientExited k V.
(* every stop request has been served: no client is marked stopping *)
Definition no_pending (st : mstate) : Prop := forall c, In c (m_clients st) -> cs_stopping c = false.
Definition settled (V : list placement) (st : mstate) : Prop :=
  (forall k, In k (vkeys V) -> In k (keys (m_clients st))) /\
  (forall c, In c (m_clients st) -> ~ In (cs_key c) (vkeys V) -> cs_stopping c = true).

Definition bytes_dec : forall a b : bytes, {a = b} + {a <> b} := list_eq_dec N.eq_dec.

Lemma do_scan_settled st V st' a : do_scan st V = (st', a) -> settled V st'.
Proof.
  intros H. destruct (do_scan_spec _ _ _ _ H) as (_ & _ & Ek & _ & _ & Hks & _ & _ & Hin). split.
  - intros k Hk. rewrite Ek, in_app_iff. destruct (in_dec bytes_dec k (keys (m_clients st))) as [Hi|Hi]; [left; exact Hi|].
    right. apply Hks. split; assumption.
  - intros c' Hc' Hn. apply Hin in Hc' as (c & _ & E1 & _ & E3). rewrite E3, <- E1.
    apply in_view_false in Hn. rewrite Hn. apply orb_true_r.
Qed.

Lemma step_at_view V st e :
  m_done st = false -> m_stopping st = false -> at_view V e ->
  let st' := fst (step st e) in
  m_done st' = false /\ m_stopping st' = false /\ (settled V st -> settled V st') /\ (e = Scan V -> settled V st').
Proof.
  intros Hd Hs Ha. unfold step. rewrite Hd. destruct Ha as [->|(k & ->)]; rewrite ?Hs.
  - destruct (do_scan st V) as [st' a] eqn:E. cbn [fst].
    destruct (do_scan_spec _ _ _ _ E) as (E1 & E2 & _). rewrite E1, E2.
    pose proof (do_scan_settled _ _ _ _ E). auto.
  - destruct (existsb _ (m_clients st)) eqn:Ee.
    + destruct (do_scan _ V) as [st' a] eqn:E. cbn [fst].
      destruct (do_scan_spec _ _ _ _ E) as (E1 & E2 & _). rewrite E1, E2. cbn.
      pose proof (do_scan_settled _ _ _ _ E) as Hst. split; [reflexivity|]. split; [reflexivity|].
      split; [intros _; exact Hst|discriminate].
    + cbn [fst]. split; [exact Hd|]. split; [exact Hs|]. split; [auto|discriminate].
Qed.

Lemma run_at_view V es : forall st,
  m_done st = false -> m_stopping st = false -> Forall (at_view V) es ->
  let st' := fst (run st es) in
  m_done st' = false /\ m_stopping st' = false /\ (settled V st \/ In (Scan V) es -> settled V st').
Proof.
  induction es as [|e es IH]; intros st Hd Hs Hf; cbn [run].
  - cbn. split; [exact Hd|]. split; [exact Hs|]. intros [Hx|[]]. exact Hx.
  - inversion Hf; subst. pose proof (step_at_view V st e Hd Hs H1) as (Hd1 & Hs1 & Hk1 & Hk2).
    destruct (step st e) as [st1 a1]. cbn [fst] in *. specialize (IH st1 Hd1 Hs1 H2).
    destruct (run st1 es) as [st2 a2]. cbn [fst] in *. destruct IH as (Hd2 & Hs2 & Hk3).
    split; [exact Hd2|]. split; [exact Hs2|]. intros [Hset|[->|Hin]]; apply Hk3; auto.
Qed.

(* which scan a client's configuration comes from *)
Definition views_of (es : list event) : list (list placement) :=
  flat_map (fun e => match e with Scan v => [v] | ClientExited _ v => [v] | _ => [] end) es.
Definition prov (vws : list (list placement)) (st : mstate) : Prop :=
  forall c, In c (m_clients st) -> exists view, In view vws /\ In (cs_pl c) view.

Lemma prov_weaken v1 v2 st : prov v1 st -> prov (v1 ++ v2) st.
Proof. intros H c Hc. destruct (H c Hc) as (v & Hv & Hp). exists v. split; [apply in_or_app; left; exact Hv|exact Hp]. Qed.

Lemma do_scan_prov vws st view st' a : prov vws st -> do_scan st view = (st', a) -> prov (vws ++ [view]) st'.
Proof.
  intros Hp H. destruct (do_scan_spec _ _ _ _ H) as (_ & _ & _ & Hi & _ & _ & _ & _ & Hin).
  intros c' Hc'. apply Hin in Hc' as (c & Hc & _ & E2 & _). rewrite E2. apply in_app_iff in Hc as [Hc|Hc].
  - destruct (Hp c Hc) as (v & Hv & Hpv). exists v. split; [apply in_or_app; left; exact Hv|exact Hpv].
  - apply in_map_iff in Hc as (p & <- & Hps). exists view. split; [apply in_or_app; right; left; reflexivity|].
    apply Hi. exact Hps.
Qed.

Lemma step_prov vws st e : prov vws st -> prov (vws ++ views_of [e]) (fst (step st e)).
Proof.
  intros Hp. unfold step. destruct (m_done st); [apply prov_weaken; exact Hp|].
  destruct e as [view|k u|k view|]; cbn [views_of flat_map app].
  - destruct (m_stopping st); [apply prov_weaken; exact Hp|].
    destruct (do_scan st view) as [st' a] eqn:E. eapply do_scan_prov; eassumption.
  - rewrite app_nil_r. destruct (has_key k (m_clients st)); [|exact Hp]. cbn [fst]. intros c Hc. cbn in Hc.
    apply in_map_iff in Hc as (c0 & <- & Hc0). destruct (bytes_eqb (cs_key c0) k); cbn; apply Hp; exact Hc0.
  - destruct (existsb _ (m_clients st)); [|apply prov_weaken; exact Hp].
    assert (Hf : prov vws (mkM (filter (fun c => negb (bytes_eqb (cs_key c) k)) (m_clients st)) false false)).
    { intros c Hc. cbn in Hc. apply filter_In in Hc as (Hc & _). apply Hp. exact Hc. }
    destruct (m_stopping st).
    + cbn [fst]. apply prov_weaken. intros c Hc. apply Hf. exact Hc.
    + destruct (do_scan _ view) as [st' a] eqn:E. cbn [fst]. eapply do_scan_prov; eassumption.
  - rewrite app_nil_r. destruct (m_stopping st); [exact Hp|]. cbn [fst]. intros c Hc. cbn in Hc.
    apply in_map_iff in Hc as (c0 & <- & Hc0). cbn. apply Hp. exact Hc0.
Qed.

Lemma views_of_app a b : views_of (a ++ b) = views_of a ++ views_of b.
Proof. apply flat_map_app. Qed.

Lemma run_prov es : forall vws st, prov vws st -> prov (vws ++ views_of es) (fst (run st es)).
Proof.
  induction es as [|e es IH]; intros vws st Hp; cbn [run].
  - cbn. rewrite app_nil_r. exact Hp.
  - pose proof (step_prov vws st e Hp) as H1. destruct (step st e) as [st1 a1]. cbn [fst] in H1.
    specialize (IH _ _ H1). destruct (run st1 es) as [st2 a2]. cbn [fst] in *.
    change (e :: es) with ([e] ++ es). rewrite views_of_app, app_assoc. exact IH.
Qed.

Theorem C07_quiescent_proof : forall (hist : list event) (V : list placement) (drain : list event),
  let st := fst (run m_init (hist ++ drain)) in
  Forall (at_view V) drain -> In (Scan V) drain ->
  m_stopping st = false -> no_pending st ->
  (forall k, In k (keys (m_clients st)) <-> In k (vkeys V)) /\
  NoDup (keys (m_clients st)) /\
  (forall c, In c (m_clients st) ->
     cs_key c = pl_key (cs_pl c) /\ exists view, In view (views_of (hist ++ drain)) /\ In (cs_pl c) view).
Proof.
  intros hist V drain st Hf Hin Hs Hnp.
  pose proof (run_wfm (hist ++ drain) m_init wfm_init) as W. fold st in W.
  pose proof (run_prov (hist ++ drain) [] m_init) as Hpv. cbn [app] in Hpv. fold st in Hpv.
  assert (Hp0 : prov [] m_init) by (intros c []). specialize (Hpv Hp0).
  subst st. rewrite run_app in *. destruct (run m_init hist) as [s1 a1] eqn:E1.
  destruct (run s1 drain) as [s2 a2] eqn:E2. cbn [fst] in *.
  pose proof (run_wfm hist m_init wfm_init) as W1. rewrite E1 in W1. cbn [fst] in W1.
  assert (Hs1 : m_stopping s1 = false).
  { destruct (m_stopping s1) eqn:E; [|reflexivity]. pose proof (run_stopping drain s1 E) as H. rewrite E2 in H. cbn in H. congruence. }
  assert (Hd1 : m_done s1 = false).
  { destruct (m_done s1) eqn:E; [|reflexivity]. pose proof (wfm_done _ W1 E). congruence. }
  pose proof (run_at_view V drain s1 Hd1 Hs1 Hf) as H. rewrite E2 in H. cbn [fst] in H. destruct H as (_ & _ & Hset).
  destruct (Hset (or_intror Hin)) as (Hall & Hstop).
  split; [|split].
  - intros k. split; [|apply Hall]. intros Hk. apply in_map_iff in Hk as (c & <- & Hc).
    destruct (in_dec bytes_dec (cs_key c) (vkeys V)) as [Hi|Hi]; [exact Hi|].
    pose proof (Hstop c Hc Hi) as Ht. rewrite (Hnp c Hc) in Ht. discriminate.
  - exact (wfm_nodup _ W).
  - intros c Hc. split; [exact (wfm_key _ W c Hc)|]. exact (Hpv c Hc).
Qed.

(* "-" does not occur in the parent id: the key determines (parent, id) *)
Lemma mapkey_inj : forall p1 i1 p2 i2,
  ~ In dash p1 -> ~ In dash p2 -> mapkey p1 i1 = mapkey p2 i2 -> p1 = p2 /\ i1 = i2.
Proof.
  unfold mapkey. induction p1 as [|c p1 IH]; intros i1 [|d p2] i2 H1 H2 E; cbn in E.
  - inversion E. auto.
  - inversion E; subst. exfalso. apply H2. left. reflexivity.
  - inversion E; subst. exfalso. apply H1. left. reflexivity.
  - inversion E; subst. destruct (IH i1 p2 i2) as (-> & ->); auto.
    + intros Hc. apply H1. right. exact Hc.
    + intros Hc. apply H2. right. exact Hc.
Qed.

(* ---------- the drain terminates: every stop request is served after at most |clients| exits ---------- *)
Definition nstop (cl : list cstate) : nat := length (filter cs_stopping cl).

Lemma nstop_filter_key k cl c :
  NoDup (keys cl) -> In c cl -> cs_key c = k -> cs_stopping c = true ->
  S (nstop (filter (fun c => negb (bytes_eqb (cs_key c) k)) cl)) = nstop cl.
Proof.
  unfold nstop. induction cl as [|x cl IH]; intros Hn Hc Ek Es; [destruct Hc|].
  cbn in Hn. inversion Hn; subst. destruct Hc as [->|Hc].
  - cbn [filter]. rewrite bytes_eqb_refl. cbn [negb]. rewrite Es. cbn [length]. f_equal.
    f_equal. clear IH Hn H2. induction cl as [|y cl IHc]; [reflexivity|]. cbn [filter].
    destruct (bytes_eqb (cs_key y) (cs_key c)) eqn:E.
    + exfalso. apply bytes_eqb_eq in E. apply H1. cbn. left. exact E.
    + cbn [negb filter]. rewrite IHc; [reflexivity|]. intros Hx. apply H1. cbn. right. exact Hx.
  - cbn [filter]. destruct (bytes_eqb (cs_key x) (cs_key c)) eqn:E.
    + exfalso. apply bytes_eqb_eq in E. apply H1. rewrite E. apply in_map. exact Hc.
    + cbn [negb filter]. destruct (cs_stopping x); cbn [length]; rewrite <- (IH H2 Hc eq_refl Es); reflexivity.
Qed.

Lemma find_stopping_none cl : find cs_stopping cl = None -> forall c, In c cl -> cs_stopping c = false.
Proof.
  intros H c Hc. destruct (cs_stopping c) eqn:E; [|reflexivity].
  pose proof (find_none _ _ H c Hc). congruence.
Qed.

Lemma do_scan_nstop st V st' a :
  (forall c, In c (m_clients st) -> ~ In (cs_key c) (vkeys V) -> cs_stopping c = true) ->
  do_scan st V = (st', a) -> nstop (m_clients st') = nstop (m_clients st).
Proof.
  intros Hstop H. unfold do_scan in H. destruct (scan_start (m_clients st) V) as [cl1 a1] eqn:E1.
  destruct (scan_stop cl1 V) as [cl2 a2] eqn:E2. inversion H; subst; clear H. cbn [m_clients].
  destruct (scan_start_spec _ _ _ _ E1) as (Hc & _ & _ & Hi & Hk & _).
  unfold scan_stop in E2. inversion E2; subst cl2; clear E2.
  unfold nstop. rewrite Hc, map_app, !filter_app, !app_length.
  assert (A1 : forall cl, (forall c, In c cl -> ~ In (cs_key c) (vkeys V) -> cs_stopping c = true) ->
               length (filter cs_stopping (map (fun c => if in_view (cs_key c) V then c else set_stopping c) cl)) =
               length (filter cs_stopping cl)).
  { induction cl as [|c cl IH]; intros Hst; [reflexivity|]. cbn [map filter].
    assert (Hc1 : cs_stopping (if in_view (cs_key c) V then c else set_stopping c) = cs_stopping c).
    { destruct (in_view (cs_key c) V) eqn:Ev; [reflexivity|]. cbn. symmetry. apply Hst; [left; reflexivity|].
      apply in_view_false. exact Ev. }
    rewrite Hc1. assert (IH' := IH (fun c0 H0 => Hst c0 (or_intror H0))).
    destruct (cs_stopping c); cbn [length]; rewrite IH'; reflexivity. }
  assert (A2 : forall l, (forall p, In p l -> in_view (pl_key p) V = true) ->
               length (filter cs_stopping (map (fun c => if in_view (cs_key c) V then c else set_stopping c) (map client_of l))) = 0%nat).
  { induction l as [|p l IH]; intros Hall; [reflexivity|]. cbn [map filter]. cbn [client_of cs_key].
    rewrite (Hall p (or_introl eq_refl)). cbn. apply IH. intros q Hq. apply Hall. right. exact Hq. }
  rewrite (A1 _ Hstop), A2; [lia|]. intros p Hp. apply in_view_In. apply in_map. apply Hi. exact Hp.
Qed.

Lemma drain_spec V : forall f st,
  wfm st -> m_done st = false -> m_stopping st = false -> settled V st -> (nstop (m_clients st) < f)%nat ->
  let st' := fst (drain f st V) in
  no_pending st' /\ settled V st' /\ m_stopping st' = false /\
  exists es, Forall (at_view V) es /\ fst (run st es) = st'.
Proof.
  induction f as [|f IH]; intros st W Hd Hs Hset Hlt; [lia|]. cbn [drain].
  destruct (find cs_stopping (m_clients st)) as [c|] eqn:Ef.
  - apply find_some in Ef as (Hc & Hcs).
    pose proof (step_at_view V st (ClientExited (cs_key c) V) Hd Hs (or_intror (ex_intro _ _ eq_refl))) as (Hd1 & Hs1 & Hk1 & _).
    pose proof (step_wfm st (ClientExited (cs_key c) V)) as W1.
    assert (Hn : (nstop (m_clients (fst (step st (ClientExited (cs_key c) V)))) < f)%nat).
    { unfold step. rewrite Hd, Hs.
      assert (Ee : existsb (fun c0 => bytes_eqb (cs_key c0) (cs_key c) && cs_stopping c0) (m_clients st) = true).
      { apply existsb_exists. exists c. split; [exact Hc|]. rewrite bytes_eqb_refl, Hcs. reflexivity. }
      rewrite Ee. destruct (do_scan _ V) as [st1 a1] eqn:E. cbn [fst].
      assert (Hst' : forall c0, In c0 (m_clients (mkM (filter (fun c0 => negb (bytes_eqb (cs_key c0) (cs_key c))) (m_clients st)) false false)) ->
                     ~ In (cs_key c0) (vkeys V) -> cs_stopping c0 = true).
      { intros c0 Hc0 Hn0. cbn in Hc0. apply filter_In in Hc0 as (Hc0 & _). apply (proj2 Hset); assumption. }
      rewrite (do_scan_nstop _ _ _ _ Hst' E).
      cbn [m_clients]. pose proof (nstop_filter_key (cs_key c) (m_clients st) c (wfm_nodup _ W) Hc eq_refl Hcs). lia. }
    destruct (step st (ClientExited (cs_key c) V)) as [st1 a1] eqn:E1. cbn [fst] in *.
    specialize (IH st1 (W1 _ _ W eq_refl) Hd1 Hs1 (Hk1 Hset) Hn).
    destruct (drain f st1 V) as [st2 a2] eqn:E2. cbn [fst] in *.
    destruct IH as (H1 & H2 & H3 & es & Hes & Hrun). split; [exact H1|]. split; [exact H2|]. split; [exact H3|].
    exists (ClientExited (cs_key c) V :: es). split; [constructor; [right; eexists; reflexivity|exact Hes]|].
    cbn [run]. rewrite E1. destruct (run st1 es) as [s x]. cbn [fst] in *. exact Hrun.
  - cbn [fst]. split; [intros c Hc; eapply find_stopping_none; eassumption|]. split; [exact Hset|]. split; [exact Hs|].
    exists []. split; [constructor|reflexivity].
Qed.

Theorem C07_drain_proof : forall st V,
  wfm st -> m_done st = false -> m_stopping st = false ->
  let st1 := fst (step st (Scan V)) in
  let st2 := fst (drain (S (length (m_clients st1))) st1 V) in
  no_pending st2 /\ m_stopping st2 = false /\
  exists es, Forall (at_view V) es /\ In (Scan V) es /\ fst (run st es) = st2.
Proof.
  intros st V W Hd Hs st1 st2.
  pose proof (step_at_view V st (Scan V) Hd Hs (or_introl eq_refl)) as (Hd1 & Hs1 & _ & Hk).
  pose proof (step_wfm st (Scan V)) as W1. subst st1 st2.
  destruct (step st (Scan V)) as [st1 a1] eqn:E1. cbn [fst] in *.
  assert (Hlt : (nstop (m_clients st1) < S (length (m_clients st1)))%nat).
  { unfold nstop. clear. induction (m_clients st1) as [|c l IH]; cbn; [lia|]. destruct (cs_stopping c); cbn; lia. }
  pose proof (drain_spec V _ st1 (W1 _ _ W eq_refl) Hd1 Hs1 (Hk eq_refl) Hlt) as (H1 & _ & H3 & es & Hes & Hrun).
  split; [exact H1|]. split; [exact H3|].
  exists (Scan V :: es). split; [constructor; [left; reflexivity|exact Hes]|]. split; [left; reflexivity|].
  cbn [run]. rewrite E1. destruct (run st1 es) as [s x]. cbn [fst] in *. exact Hrun.
Qed.

(* ---------- no two clients for one key at a time ---------- *)
Lemma mem_bytes_In x l : mem_bytes x l = true <-> In x l.
Proof.
  unfold mem_bytes. rewrite existsb_exists. split.
  - intros (y & Hy & E). apply bytes_eqb_eq in E. subst. exact Hy.
  - intros H. exists x. split; [exact H|apply bytes_eqb_refl].
Qed.

Lemma overlap_free_app l1 : forall act l2,
  overlap_free act (l1 ++ l2) = overlap_free act l1 && overlap_free (active_after act l1) l2.
Proof.
  induction l1 as [|[k|k] l1 IH]; intros act l2; cbn [app overlap_free active_after]; [reflexivity| |].
  - rewrite IH, andb_assoc. reflexivity.
  - apply IH.
Qed.

Lemma active_after_app l1 : forall act l2, active_after act (l1 ++ l2) = active_after (active_after act l1) l2.
Proof. induction l1 as [|[k|k] l1 IH]; intros act l2; cbn [app active_after]; auto. Qed.

Lemma remove_key_spec k l : NoDup l -> NoDup (remove_key k l) /\ forall x, In x (remove_key k l) <-> In x l /\ x <> k.
Proof.
  induction l as [|y l IH]; intros Hn; cbn [remove_key].
  - split; [constructor|]. intros x. cbn. tauto.
  - inversion Hn; subst. destruct (IH H2) as (IH1 & IH2). destruct (bytes_eqb y k) eqn:E.
    + apply bytes_eqb_eq in E. subst y. split; [exact H2|]. intros x. cbn. split.
      * intros Hx. split; [right; exact Hx|]. intros ->. contradiction.
      * intros ([<-|Hx] & Hne); [congruence|exact Hx].
    + split.
      * constructor; [|exact IH1]. intros Hc. apply IH2 in Hc. tauto.
      * intros x. cbn. rewrite IH2. split.
        -- intros [<-|(Hx & Hne)]; [split; [left; reflexivity|]|tauto]. intros ->. rewrite bytes_eqb_refl in E. discriminate.
        -- intros ([<-|Hx] & Hne); [left; reflexivity|right; tauto].
Qed.

Lemma starts_log_ok : forall ks act, NoDup ks -> (forall k, In k ks -> ~ In k act) -> NoDup act ->
  overlap_free act (map LgStart ks) = true /\ NoDup (active_after act (map LgStart ks)) /\
  forall k, In k (active_after act (map LgStart ks)) <-> In k act \/ In k ks.
Proof.
  induction ks as [|k ks IH]; intros act Hn Hd Ha; cbn [map overlap_free active_after].
  - split; [reflexivity|]. split; [exact Ha|]. intros k. cbn. tauto.
  - inversion Hn; subst. destruct (IH (k :: act)) as (I1 & I2 & I3); auto.
    + intros x Hx [<-|Hc]; [contradiction|]. apply (Hd x); [right; exact Hx|exact Hc].
    + constructor; [|exact Ha]. apply Hd. left. reflexivity.
    + split.
      * rewrite I1, andb_true_r. destruct (mem_bytes k act) eqn:E; [|reflexivity].
        apply mem_bytes_In in E. exfalso. apply (Hd k); [left; reflexivity|exact E].
      * split; [exact I2|]. intros x. rewrite I3. cbn. tauto.
Qed.

Definition act_ok (active : list bytes) (st : mstate) : Prop :=
  NoDup active /\ forall k, In k active <-> In k (keys (m_clients st)).

Lemma do_scan_overlap act st view st' a :
  act_ok act st -> do_scan st view = (st', a) ->
  overlap_free act (log_of_actions a) = true /\ act_ok (active_after act (log_of_actions a)) st'.
Proof.
  intros (Hn & Hk) H. destruct (do_scan_spec _ _ _ _ H) as (_ & _ & Ek & _ & Hnd & Hks & _ & Hl & _).
  assert (El : log_of_actions a = map LgStart (vkeys (starts a))) by (rewrite Hl; unfold vkeys; rewrite map_map; reflexivity).
  rewrite El. destruct (starts_log_ok (vkeys (starts a)) act Hnd) as (I1 & I2 & I3); auto.
  - intros k Hks' Hc. apply Hks in Hks'. apply Hk in Hc. tauto.
  - split; [exact I1|]. split; [exact I2|]. intros k. rewrite I3, Ek, in_app_iff, Hk. reflexivity.
Qed.

Lemma log_stopreqs {A} (f : A -> bytes) l : log_of_actions (map (fun c => AStopReq (f c)) l) = [].
Proof. induction l as [|x l IH]; [reflexivity|exact IH]. Qed.

Lemma step_overlap act st e st' a :
  wfm st -> act_ok act st -> step st e = (st', a) ->
  overlap_free act (log_of_actions a) = true /\ act_ok (active_after act (log_of_actions a)) st'.
Proof.
  intros W Hok H. unfold step in H. destruct (m_done st); [inversion H; subst; split; [reflexivity|exact Hok]|].
  destruct e as [view|k u|k view|].
  - destruct (m_stopping st); [inversion H; subst; split; [reflexivity|exact Hok]|]. eapply do_scan_overlap; eassumption.
  - destruct (has_key k (m_clients st)); inversion H; subst; clear H; (split; [reflexivity|]); [|exact Hok].
    destruct Hok as (Hn & Hk). split; [exact Hn|]. intros x. rewrite Hk. cbn. unfold keys. rewrite map_map.
    rewrite (map_ext (fun c => cs_key (if bytes_eqb (cs_key c) k then set_stopping c else c)) cs_key); [reflexivity|].
    intros c. destruct (bytes_eqb (cs_key c) k); reflexivity.
  - destruct (existsb _ (m_clients st)); [|inversion H; subst; split; [reflexivity|exact Hok]].
    destruct Hok as (Hn & Hk).
    destruct (remove_key_spec k act Hn) as (R1 & R2).
    destruct (keys_filter_nodup k (m_clients st) (wfm_nodup _ W)) as (_ & F2).
    assert (Hok' : forall s d, act_ok (remove_key k act) (mkM (filter (fun c => negb (bytes_eqb (cs_key c) k)) (m_clients st)) s d)).
    { intros s d. split; [exact R1|]. intros x. cbn [m_clients]. rewrite R2, F2, Hk. reflexivity. }
    destruct (m_stopping st).
    + inversion H; subst. cbn. split; [reflexivity|apply Hok'].
    + destruct (do_scan _ view) as [st1 a1] eqn:E. inversion H; subst.
      change (log_of_actions (AExit k :: a1)) with (LgExit k :: log_of_actions a1). cbn [overlap_free active_after].
      eapply do_scan_overlap; [apply Hok'|exact E].
  - destruct (m_stopping st); inversion H; subst; clear H; [split; [reflexivity|exact Hok]|].
    rewrite log_stopreqs. split; [reflexivity|]. destruct Hok as (Hn & Hk). split; [exact Hn|].
    intros x. rewrite Hk. cbn. unfold keys. rewrite map_map. reflexivity.
Qed.

Lemma log_of_actions_app a b : log_of_actions (a ++ b) = log_of_actions a ++ log_of_actions b.
Proof. apply flat_map_app. Qed.

Lemma run_overlap es : forall act st, wfm st -> act_ok act st ->
  overlap_free act (log_of_actions (snd (run st es))) = true.
Proof.
  induction es as [|e es IH]; intros act st W Hok; cbn [run]; [reflexivity|].
  destruct (step st e) as [st1 a1] eqn:E1.
  destruct (step_overlap _ _ _ _ _ W Hok E1) as (H1 & H2).
  specialize (IH _ st1 (step_wfm _ _ _ _ W E1) H2). destruct (run st1 es) as [st2 a2]. cbn [snd] in *.
  rewrite log_of_actions_app, overlap_free_app, H1, IH. reflexivity.
Qed.

Theorem C07_no_overlap_proof : forall es : list event,
  overlap_free [] (log_of_actions (snd (run m_init es))) = true.
Proof.
  intros es. apply run_overlap; [exact wfm_init|]. split; [constructor|]. intros k. cbn. tauto.
Qed.

(* ---------- Stop ---------- *)
Lemma run_no_starts es : forall st, m_stopping st = true -> starts (snd (run st es)) = [].
Proof.
  induction es as [|e es IH]; intros st Hs; cbn [run]; [reflexivity|].
  pose proof (step_stopping st e Hs) as H1.
  assert (Ha : starts (snd (step st e)) = []).
  { unfold step. destruct (m_done st); [reflexivity|]. destruct e as [view|k u|k view|]; rewrite ?Hs; try reflexivity.
    - destruct (has_key k (m_clients st)); reflexivity.
    - destruct (existsb _ (m_clients st)); reflexivity. }
  destruct (step st e) as [st1 a1]. cbn [fst snd] in *. specialize (IH st1 H1).
  destruct (run st1 es) as [st2 a2]. cbn [snd] in *. rewrite starts_app, Ha, IH. reflexivity.
Qed.

Definition all_stopping (st : mstate) : Prop := forall c, In c (m_clients st) -> cs_stopping c = true.

Lemma exits_terminal V : forall ks st,
  m_stopping st = true -> all_stopping st -> NoDup (keys (m_clients st)) ->
  (m_done st = true <-> m_clients st = []) ->
  NoDup ks -> (forall k, In k ks <-> In k (keys (m_clients st))) ->
  let st' := fst (run st (map (fun k => ClientExited k V) ks)) in
  m_done st' = true /\ m_clients st' = [].
Proof.
  induction ks as [|k ks IH]; intros st Hs Hall Hn Hd Hnk Hks; cbn [map run].
  - cbn [fst]. assert (E : m_clients st = []).
    { destruct (m_clients st) as [|c cl]; [reflexivity|]. exfalso. apply (Hks (cs_key c)). left. reflexivity. }
    split; [apply Hd; exact E|exact E].
  - inversion Hnk; subst.
    assert (Hk : In k (keys (m_clients st))) by (apply Hks; left; reflexivity).
    assert (Hnd : m_done st = false).
    { destruct (m_done st) eqn:E; [|reflexivity]. destruct Hd as (Hd & _). rewrite (Hd eq_refl) in Hk. destruct Hk. }
    unfold step. rewrite Hnd, Hs.
    assert (Ee : existsb (fun c => bytes_eqb (cs_key c) k && cs_stopping c) (m_clients st) = true).
    { apply in_map_iff in Hk as (c & <- & Hc). apply existsb_exists. exists c. split; [exact Hc|].
      rewrite bytes_eqb_refl, (Hall c Hc). reflexivity. }
    rewrite Ee. set (cl' := filter (fun c => negb (bytes_eqb (cs_key c) k)) (m_clients st)).
    destruct (keys_filter_nodup k (m_clients st) Hn) as (F1 & F2). fold cl' in F1, F2.
    set (st1 := mkM cl' true (match cl' with [] => true | _ => false end)).
    specialize (IH st1). cbn [m_stopping m_clients m_done] in IH.
    destruct (run st1 (map (fun k0 => ClientExited k0 V) ks)) as [st2 a2] eqn:E2. cbn [fst] in *.
    apply IH; auto.
    + intros c Hc. apply filter_In in Hc as (Hc & _). apply Hall. exact Hc.
    + subst st1. cbn [m_done m_clients]. destruct cl'; split; congruence.
    + intros x. subst st1. cbn [m_clients]. rewrite F2. split.
      * intros Hx. split; [apply Hks; right; exact Hx|]. intros ->. contradiction.
      * intros (Hx & Hne). apply Hks in Hx. destruct Hx as [->|Hx]; [congruence|exact Hx].
Qed.

Theorem C07_stop_returns_proof : forall st V,
  wfm st -> m_stopping st = false -> m_done st = false ->
  let st1 := fst (step st Stop) in
  (* every client is asked to stop *)
  (forall k, In (AStopReq k) (snd (step st Stop)) <-> In k (keys (m_clients st))) /\ all_stopping st1 /\
  (* no client is started after Stop, whatever happens *)
  (forall es, starts (snd (run st1 es)) = []) /\
  (* once every client has exited, in any order, Run has returned: terminal state, no client left *)
  (forall ks, NoDup ks -> (forall k, In k ks <-> In k (keys (m_clients st))) ->
     let st2 := fst (run st1 (map (fun k => ClientExited k V) ks)) in m_done st2 = true /\ m_clients st2 = []).
Proof.
  intros st V W Hs Hd. unfold step. rewrite Hd, Hs. cbn [fst snd].
  set (st1 := mkM (map set_stopping (m_clients st)) true (match m_clients st with [] => true | _ => false end)).
  assert (Hk1 : keys (m_clients st1) = keys (m_clients st)).
  { cbn. unfold keys. rewrite map_map. reflexivity. }
  assert (Hall : all_stopping st1).
  { intros c Hc. cbn in Hc. apply in_map_iff in Hc as (c0 & <- & _). reflexivity. }
  split; [|split; [exact Hall|split]].
  - intros k. rewrite in_map_iff. split.
    + intros (c & E & Hc). inversion E; subst. apply in_map. exact Hc.
    + intros Hk. apply in_map_iff in Hk as (c & <- & Hc). exists c. auto.
  - intros es. apply run_no_starts. reflexivity.
  - intros ks Hnk Hks. apply exits_terminal; auto.
    + rewrite Hk1. exact (wfm_nodup _ W).
    + cbn. destruct (m_clients st); cbn; split; congruence.
    + intros k. rewrite Hk1. apply Hks.
Qed.

(* ===================================================================== *)
(* Part B: scanHelper finds exactly the specified placements              *)
(* ===================================================================== *)
Lemma fold_grow {A B} (g : list A -> B -> list A) (P : B -> A -> Prop) :
  (forall acc b a, In a (g acc b) <-> In a acc \/ P b a) ->
  forall l acc a, In a (fold_left g l acc) <-> In a acc \/ exists b, In b l /\ P b a.
Proof.
  intros Hg. induction l as [|b l IH]; intros acc a; cbn [fold_left].
  - split; [auto|]. intros [H|(b & [] & _)]. exact H.
  - rewrite IH, Hg. split.
    + intros [[H|H]|(b' & Hb' & H)]; [left; exact H|right; exists b; split; [left; reflexivity|exact H]|].
      right. exists b'. split; [right; exact Hb'|exact H].
    + intros [H|(b' & [<-|Hb'] & H)]; [left; left; exact H|left; right; exact H|right; exists b'; auto].
Qed.

Section ScanFinds.
Variable vs : list edge_view.
Variable T : bytes.

(* an edge into a node of a parent type, selected by [live] *)
Definition hedge (live : edge_view -> bool) (PT : list bytes) (v : edge_view) : bool := live v && mem_bytes (v_type v) PT.

(* a chain of such edges leading from x down to y *)
Fixpoint chain (live : edge_view -> bool) (PT : list bytes) (x : bytes) (l : list edge_view) (y : bytes) : Prop :=
  match l with
  | [] => x = y
  | e :: l' => In e vs /\ hedge live PT e = true /\ v_up e = x /\ chain live PT (v_down e) l' y
  end.

Lemma chain_ext l1 P1 l2 P2 : (forall e, In e vs -> hedge l1 P1 e = hedge l2 P2 e) ->
  forall l x y, chain l1 P1 x l y <-> chain l2 P2 x l y.
Proof.
  intros He. induction l as [|e l IH]; intros x y; cbn [chain]; [reflexivity|]. rewrite IH. split.
  - intros (H1 & H2 & H3 & H4). rewrite <- (He e H1). auto.
  - intros (H1 & H2 & H3 & H4). rewrite (He e H1). auto.
Qed.

Lemma chain_snoc live PT : forall l x y e, chain live PT x l y -> In e vs -> hedge live PT e = true -> v_up e = y ->
  chain live PT x (l ++ [e]) (v_down e).
Proof.
  induction l as [|d l IH]; intros x y e Hc He Hh Hu; cbn [chain app] in *.
  - subst. auto.
  - destruct Hc as (H1 & H2 & H3 & H4). repeat split; auto. eapply IH; eauto.
Qed.

(* ---- the model side ---- *)
Definition hkids (PT : list bytes) (id : bytes) : list edge_view := flat_map (fun pt => get_nodes vs id (Some pt)) PT.
Fixpoint reach_down (f : nat) (PT : list bytes) (id : bytes) : list bytes :=
  id :: match f with
        | O => []
        | S f' => flat_map (fun p => reach_down f' PT (v_down p)) (hkids PT id)
        end.

Lemma get_nodes_In id t v : In v (get_nodes vs id (Some t)) <-> In v vs /\ v_up v = id /\ gn_live v = true /\ v_type v = t.
Proof.
  unfold get_nodes. rewrite filter_In, !andb_true_iff, !bytes_eqb_eq. tauto.
Qed.

Lemma hkids_In PT id p : In p (hkids PT id) <-> In p vs /\ v_up p = id /\ hedge gn_live PT p = true.
Proof.
  unfold hkids, hedge. rewrite in_flat_map, andb_true_iff, mem_bytes_In. split.
  - intros (pt & Hpt & H). apply get_nodes_In in H as (H1 & H2 & H3 & H4). subst pt. auto.
  - intros (H1 & H2 & H3 & H4). exists (v_type p). split; [exact H4|]. apply get_nodes_In. auto.
Qed.

Lemma reach_down_chain PT : forall f id x,
  In x (reach_down f PT id) <-> exists l, chain gn_live PT id l x /\ (length l <= f)%nat.
Proof.
  induction f as [|f IH]; intros id x; cbn [reach_down].
  - split.
    + intros [<-|[]]. exists []. cbn. auto.
    + intros ([|e l] & Hc & Hl); [left; exact Hc|cbn in Hl; lia].
  - split.
    + intros [<-|H]; [exists []; cbn; split; [reflexivity|lia]|].
      apply in_flat_map in H as (p & Hp & Hx). apply hkids_In in Hp as (H1 & H2 & H3).
      apply IH in Hx as (l & Hc & Hl). exists (p :: l). cbn. repeat split; auto. lia.
    + intros ([|e l] & Hc & Hl); [left; exact Hc|]. right. cbn in Hc, Hl. destruct Hc as (H1 & H2 & H3 & H4).
      apply in_flat_map. exists e. split; [apply hkids_In; auto|]. apply IH. exists l. split; [exact H4|lia].
Qed.

Lemma scan_helper_In PT : forall f id acc v,
  In v (scan_helper f vs T PT id acc) <->
  In v acc \/ exists x, In x (reach_down f PT id) /\ In v (get_nodes vs x (Some T)).
Proof.
  induction f as [|f IH]; intros id acc v; cbn [scan_helper reach_down].
  - rewrite in_app_iff. split.
    + intros [H|H]; [left; exact H|right; exists id; split; [left; reflexivity|exact H]].
    + intros [H|(x & [<-|[]] & H)]; auto.
  - set (R := fun (p : edge_view) (a : edge_view) =>
                exists x, In x (reach_down f PT (v_down p)) /\ In a (get_nodes vs x (Some T))).
    assert (Hin : forall acc0 p a, In a (acc0 ++ scan_helper f vs T PT (v_down p) acc0) <-> In a acc0 \/ R p a).
    { intros acc0 p a. rewrite in_app_iff, IH. unfold R. tauto. }
    assert (Hout : forall acc0 pt a,
              In a (fold_left (fun nodes p => nodes ++ scan_helper f vs T PT (v_down p) nodes) (get_nodes vs id (Some pt)) acc0) <->
              In a acc0 \/ (fun pt a => exists p, In p (get_nodes vs id (Some pt)) /\ R p a) pt a).
    { intros acc0 pt a. apply (fold_grow _ R Hin). }
    rewrite (fold_grow _ _ Hout), in_app_iff. split.
    + intros [[H|H]|(pt & Hpt & p & Hp & x & Hx & Hv)].
      * left. exact H.
      * right. exists id. split; [left; reflexivity|exact H].
      * right. exists x. split; [|exact Hv]. right. apply in_flat_map. exists p. split; [|exact Hx].
        unfold hkids. apply in_flat_map. exists pt. auto.
    + intros [H|(x & [<-|Hx] & Hv)]; [left; left; exact H|left; right; exact Hv|].
      apply in_flat_map in Hx as (p & Hp & Hx). unfold hkids in Hp. apply in_flat_map in Hp as (pt & Hpt & Hp).
      right. exists pt. split; [exact Hpt|]. exists p. split; [exact Hp|]. exists x. auto.
Qed.

(* ---- the specification side ---- *)
Lemma holder_step_In PT S0 y :
  In y (holder_step vs PT S0) <->
  In y S0 \/ exists e, In e vs /\ In (v_up e) S0 /\ hedge view_live PT e = true /\ v_down e = y.
Proof.
  unfold holder_step, hedge. rewrite in_app_iff, in_map_iff. split.
  - intros [H|(e & He & Hf)]; [left; exact H|]. right. apply filter_In in Hf as (H1 & H2).
    rewrite !andb_true_iff, mem_bytes_In in H2. exists e. rewrite andb_true_iff. tauto.
  - intros [H|(e & H1 & H2 & H3 & H4)]; [left; exact H|]. right. exists e. split; [exact H4|].
    apply filter_In. split; [exact H1|]. rewrite andb_true_iff in H3. rewrite !andb_true_iff, mem_bytes_In. tauto.
Qed.

Lemma iter_holders_chain PT : forall n S0 x,
  In x (iter n (holder_step vs PT) S0) <->
  exists y l, In y S0 /\ chain view_live PT y l x /\ (length l <= n)%nat.
Proof.
  induction n as [|n IH]; intros S0 x; cbn [iter].
  - split.
    + intros H. exists x, []. cbn. auto.
    + intros (y & [|e l] & Hy & Hc & Hl); [cbn in Hc; subst; exact Hy|cbn in Hl; lia].
  - rewrite IH. split.
    + intros (y & l & Hy & Hc & Hl). apply holder_step_In in Hy as [Hy|(e & H1 & H2 & H3 & H4)].
      * exists y, l. repeat split; auto.
      * exists (v_up e), (e :: l). split; [exact H2|]. cbn. subst y. repeat split; auto. lia.
    + intros (y & [|e l] & Hy & Hc & Hl).
      * cbn in Hc. subst x. exists y, []. split; [apply holder_step_In; left; exact Hy|]. cbn. split; [reflexivity|lia].
      * cbn in Hc, Hl. destruct Hc as (H1 & H2 & H3 & H4). exists (v_down e), l.
        split; [apply holder_step_In; right; exists e; rewrite H3; auto|]. split; [exact H4|lia].
Qed.

Theorem scan_finds_placements_proof : forall root PT,
  (forall v, In v vs -> gn_live v = view_live v) ->
  forall v, In v (scan_nodes vs root T PT) <-> In v (placements vs root T PT).
Proof.
  intros root PT Hlive v. unfold scan_nodes, placements, holders.
  rewrite scan_helper_In, filter_In, !andb_true_iff, mem_bytes_In, bytes_eqb_eq, iter_holders_chain.
  assert (Hh : forall e, In e vs -> hedge gn_live (PT ++ [str_group]) e = hedge view_live (str_group :: PT) e).
  { intros e He. unfold hedge. rewrite (Hlive e He). f_equal.
    destruct (mem_bytes (v_type e) (PT ++ [str_group])) eqn:E1, (mem_bytes (v_type e) (str_group :: PT)) eqn:E2; auto.
    - apply mem_bytes_In in E1. apply in_app_iff in E1. exfalso.
      assert (In (v_type e) (str_group :: PT)) by (cbn; destruct E1 as [E1|[E1|[]]]; auto).
      apply mem_bytes_In in H. congruence.
    - apply mem_bytes_In in E2. exfalso.
      assert (In (v_type e) (PT ++ [str_group])) by (apply in_app_iff; cbn; destruct E2 as [E2|E2]; auto).
      apply mem_bytes_In in H. congruence. }
  split.
  - intros [[]|(x & Hx & Hv)]. apply reach_down_chain in Hx as (l & Hc & Hl).
    apply get_nodes_In in Hv as (H1 & H2 & H3 & H4). split; [exact H1|]. rewrite <- (Hlive v H1). repeat split; auto.
    exists root, l. split; [left; reflexivity|]. rewrite H2. split; [|exact Hl].
    apply (chain_ext _ _ _ _ Hh). exact Hc.
  - intros (H1 & ((y & l & [<-|[]] & Hc & Hl) & H3) & H4). right. exists (v_up v). split.
    + apply reach_down_chain. exists l. split; [|exact Hl]. apply (chain_ext _ _ _ _ Hh). exact Hc.
    + apply get_nodes_In. rewrite (Hlive v H1). auto.
Qed.

End ScanFinds.

(* the keys of what the scan finds are the keys of the specified placements *)
Corollary scan_view_keys vs root T PT :
  (forall v, In v vs -> gn_live v = view_live v) ->
  forall k, In k (vkeys (scan_view vs root T PT)) <->
            In k (map (fun v => mapkey (v_up v) (v_down v)) (placements vs root T PT)).
Proof.
  intros Hl k. unfold vkeys, scan_view. rewrite map_map, !in_map_iff. split.
  - intros (v & E & Hv). exists v. split; [exact E|]. apply scan_finds_placements_proof; assumption.
  - intros (v & E & Hv). exists v. split; [exact E|]. apply scan_finds_placements_proof; assumption.
Qed.

(* ===================================================================== *)
(* Part C: the per-client callback                                        *)
(* ===================================================================== *)
Definition nodot (a : bytes) : Prop := ~ In dot a.

Lemma split_nodot a : nodot a -> split_on dot a = [a].
Proof.
  unfold nodot, split_on. induction a as [|c a IH]; intros Hn; [reflexivity|]. cbn [fold_right].
  destruct (c =? dot) eqn:E; [apply N.eqb_eq in E; exfalso; apply Hn; left; auto|].
  rewrite IH; [reflexivity|]. intros Hc. apply Hn. right. exact Hc.
Qed.

Lemma split_app a rest : nodot a -> split_on dot (a ++ dot :: rest) = a :: split_on dot rest.
Proof.
  unfold nodot. induction a as [|c a IH]; intros Hn.
  - cbn [app]. unfold split_on. cbn [fold_right]. rewrite N.eqb_refl. reflexivity.
  - cbn [app]. unfold split_on in *. cbn [fold_right].
    destruct (c =? dot) eqn:E; [apply N.eqb_eq in E; exfalso; apply Hn; left; auto|].
    rewrite IH; [reflexivity|]. intros Hc. apply Hn. right. exact Hc.
Qed.

Lemma nodot_up : nodot str_up.
Proof. unfold nodot, str_up, dot. cbn. intros [H|[H|[]]]; discriminate. Qed.

Lemma subject_np_split x pts a : nodot a -> nodot x ->
  split_on dot (subject (NodePts x pts) a) = [str_up; a; x].
Proof.
  intros Ha Hx. unfold subject. cbn [app]. change (str_up ++ dot :: a ++ dot :: x) with (str_up ++ dot :: (a ++ dot :: x)).
  rewrite (split_app _ _ nodot_up), (split_app _ _ Ha), (split_nodot _ Hx). reflexivity.
Qed.

Lemma subject_ep_split x par pts a : nodot a -> nodot x -> nodot par ->
  split_on dot (subject (EdgePts x par pts) a) = [str_up; a; x; par].
Proof.
  intros Ha Hx Hp. unfold subject. cbn [app].
  change (str_up ++ dot :: a ++ dot :: x ++ dot :: par) with (str_up ++ dot :: (a ++ dot :: (x ++ dot :: par))).
  rewrite (split_app _ _ nodot_up), (split_app _ _ Ha), (split_app _ _ Hx), (split_nodot _ Hp). reflexivity.
Qed.

Definition op_nodot (o : op) : Prop :=
  match o with NodePts x _ => nodot x | EdgePts x par _ => nodot x /\ nodot par end.

Lemma sub_match_subject c o a : nodot a -> op_nodot o -> sub_match c (subject o a) = bytes_eqb a c.
Proof.
  intros Ha Ho. unfold sub_match. destruct o as [x pts|x par pts]; cbn in Ho.
  - rewrite subject_np_split by assumption. reflexivity.
  - destruct Ho. rewrite subject_ep_split by assumption. reflexivity.
Qed.

Lemma foreign_spec c x o : foreign c x o = true <-> ~ (o = [] /\ x = c) /\ o <> c.
Proof.
  unfold foreign. rewrite andb_true_iff, !negb_true_iff. split.
  - intros (H1 & H2). split.
    + intros (-> & ->). rewrite !bytes_eqb_refl in H1. discriminate.
    + intros ->. rewrite bytes_eqb_refl in H2. discriminate.
  - intros (H1 & H2). split.
    + destruct (bytes_eqb o []) eqn:E1, (bytes_eqb x c) eqn:E2; auto. apply bytes_eqb_eq in E1, E2. tauto.
    + destruct (bytes_eqb o c) eqn:E; auto. apply bytes_eqb_eq in E. contradiction.
Qed.

Lemma own_single c x o pts : pts <> [] -> (forall p, In p pts -> p_origin p = o) ->
  existsb (own_point c x) pts = negb (foreign c x o).
Proof.
  intros Hne Ho. unfold foreign. rewrite negb_andb, !negb_involutive.
  destruct pts as [|p pts]; [contradiction|]. clear Hne.
  assert (Hown : forall q, In q (p :: pts) -> own_point c x q = (bytes_eqb o [] && bytes_eqb x c) || bytes_eqb o c).
  { intros q Hq. unfold own_point. rewrite (Ho q Hq). reflexivity. }
  cbn [existsb]. rewrite (Hown p (or_introl eq_refl)).
  destruct ((bytes_eqb o [] && bytes_eqb x c) || bytes_eqb o c) eqn:E; [reflexivity|]. cbn [orb].
  apply not_true_is_false. intros Hc. apply existsb_exists in Hc as (q & Hq & Hoq). rewrite (Hown q (or_intror Hq)) in Hoq. discriminate.
Qed.

(* for a batch of one author o written to node x, republished by the store on up.<a>.<x>: the client of node c
   is handed the batch iff not (o = "" and x = c) and o <> c *)
Theorem C08_filter_exact_proof : forall c a x o pts,
  nodot a -> nodot x -> pts <> [] -> (forall p, In p pts -> p_origin p = o) ->
  deliver c (subject (NodePts x pts) a) pts = if foreign c x o then DPoints x pts else DDropped.
Proof.
  intros c a x o pts Ha Hx Hne Ho. unfold deliver. rewrite subject_np_split; auto.
  rewrite (own_single c x o pts Hne Ho). destruct (foreign c x o); reflexivity.
Qed.

Lemma first_restart_spec pts : first_restart pts = None <-> spec_restart pts = false.
Proof.
  unfold spec_restart. induction pts as [|p pts IH]; cbn [first_restart existsb]; [tauto|].
  unfold restart_of.
  destruct (bytes_eqb (p_type p) str_tombstone) eqn:Et, (bytes_eqb (p_type p) str_nodeType) eqn:En,
           (f64_is_one (p_val p)) eqn:E1, (f64_is_zero (p_val p)) eqn:E0; cbn; try (split; discriminate); exact IH.
Qed.

(* edge points are handed through unfiltered, unless the batch carries a tombstone (0 or 1) or a node type:
   then the client is restarted *)
Theorem C08_edge_points_proof : forall c a x par pts,
  nodot a -> nodot x -> nodot par ->
  deliver c (subject (EdgePts x par pts) a) pts =
  match first_restart pts with Some u => DRestart u | None => DEdgePoints x par pts end.
Proof.
  intros c a x par pts Ha Hx Hp. unfold deliver. rewrite subject_ep_split; auto.
Qed.

(* ---------- streams ---------- *)
Lemma deliver_all_filter c msgs : deliver_all c (filter (fun m => sub_match c (fst m)) msgs) = deliver_all c msgs.
Proof.
  induction msgs as [|[s pts] msgs IH]; [reflexivity|]. cbn [filter fst].
  destruct (sub_match c s) eqn:E; cbn [deliver_all]; rewrite E; [|exact IH].
  destruct (deliver c s pts); rewrite ?IH; reflexivity.
Qed.

Lemma deliver_all_app c l1 : forall l2,
  snd (deliver_all c l1) = None ->
  deliver_all c (l1 ++ l2) = (fst (deliver_all c l1) ++ fst (deliver_all c l2), snd (deliver_all c l2)).
Proof.
  induction l1 as [|[s pts] l1 IH]; intros l2 Hn; cbn [app].
  - cbn. destruct (deliver_all c l2). reflexivity.
  - cbn [deliver_all] in *. destruct (sub_match c s); [|apply IH; exact Hn].
    destruct (deliver c s pts) eqn:Ed.
    + destruct (deliver_all c l1) as [l r] eqn:E1. cbn [fst snd] in *. rewrite (IH l2 Hn). reflexivity.
    + destruct (deliver_all c l1) as [l r] eqn:E1. cbn [fst snd] in *. rewrite (IH l2 Hn). reflexivity.
    + cbn in Hn. discriminate.
    + apply IH. exact Hn.
Qed.

(* messages of one accepted request: one per id the store republishes on, in publish order *)
Definition msgs_of (o : op) (ids : list bytes) : list (bytes * list point) := map (fun a => (subject o a, op_points o)) ids.

Fixpoint count_id (c : bytes) (ids : list bytes) : nat :=
  match ids with [] => O | a :: ids' => (if bytes_eqb a c then 1 else 0) + count_id c ids' end.

Lemma deliver_msgs_np c x pts o ids :
  nodot x -> Forall nodot ids -> pts <> [] -> (forall p, In p pts -> p_origin p = o) ->
  deliver_all c (msgs_of (NodePts x pts) ids) =
  (if foreign c x o then repeat (CbPoints x pts) (count_id c ids) else [], None).
Proof.
  intros Hx Hids Hne Ho. induction ids as [|a ids IH]; cbn [msgs_of map deliver_all count_id].
  - destruct (foreign c x o); reflexivity.
  - inversion Hids; subst. rewrite (sub_match_subject c (NodePts x pts) a H1 Hx). cbn [op_points].
    specialize (IH H2). unfold msgs_of in IH. cbn [op_points] in IH. rewrite IH.
    destruct (bytes_eqb a c) eqn:E; [|reflexivity].
    rewrite (C08_filter_exact_proof c a x o pts H1 Hx Hne Ho). destruct (foreign c x o); reflexivity.
Qed.

Lemma deliver_msgs_none c o ids :
  op_nodot o -> Forall nodot ids -> ~ In c ids -> deliver_all c (msgs_of o ids) = ([], None).
Proof.
  intros Ho Hids Hn. induction ids as [|a ids IH]; [reflexivity|]. cbn [msgs_of map deliver_all].
  inversion Hids; subst. rewrite (sub_match_subject c o a H1 Ho).
  destruct (bytes_eqb a c) eqn:E; [apply bytes_eqb_eq in E; exfalso; apply Hn; left; exact E|].
  apply IH; [exact H2|]. intros Hc. apply Hn. right. exact Hc.
Qed.

(* the store's publish sequence for a history of requests (model of C06), and what one client is told *)
Fixpoint publish (st : store) (ops : list op) : list (bytes * list point) :=
  match ops with
  | [] => []
  | o :: ops' => let '(st', _, ids) := handle st o in msgs_of o ids ++ publish st' ops'
  end.

(* the accepted node-point batches of one author each, filtered by the echo predicate, in order;
   a batch republished along several paths to c arrives once per path *)
Fixpoint told (c : bytes) (st : store) (ops : list op) : list cb :=
  match ops with
  | [] => []
  | o :: ops' =>
      let '(st', _, ids) := handle st o in
      match o with
      | NodePts x pts =>
          match single_origin pts with
          | Some og => if foreign c x og then repeat (CbPoints x pts) (count_id c ids) else []
          | None => []
          end
      | EdgePts _ _ _ => []
      end ++ told c st' ops'
  end.

(* ids are NATS subject tokens; every batch is a non-empty node-point batch of one author *)
Fixpoint stream_ok (st : store) (ops : list op) : Prop :=
  match ops with
  | [] => True
  | o :: ops' =>
      let '(st', _, ids) := handle st o in
      Forall nodot ids /\
      match o with
      | NodePts x pts => nodot x /\ exists og, single_origin pts = Some og
      | EdgePts _ _ _ => False
      end /\ stream_ok st' ops'
  end.

Lemma single_origin_spec pts og : single_origin pts = Some og -> pts <> [] /\ forall p, In p pts -> p_origin p = og.
Proof.
  unfold single_origin. destruct pts as [|p pts]; [discriminate|].
  destruct (forallb _ pts) eqn:E; [|discriminate]. intros H. inversion H; subst. split; [discriminate|].
  intros q [<-|Hq]; [reflexivity|]. rewrite forallb_forall in E. apply bytes_eqb_eq. apply E. exact Hq.
Qed.

Section Order.
Variable c : bytes.
(* what the callback of the subscription up.<c>.> is invoked with, given everything published *)
Variable received : list (bytes * list point) -> list (bytes * list point).
(* NATS: the messages matching one subscription reach its callback one at a time in publish order *)
Hypothesis nats_fifo : forall published, received published = filter (fun m => sub_match c (fst m)) published.

Theorem C08_order_proof : forall ops st, stream_ok st ops ->
  deliver_all c (received (publish st ops)) = (told c st ops, None).
Proof.
  intros ops st H. rewrite nats_fifo, deliver_all_filter. revert st H.
  induction ops as [|o ops IH]; intros st H; cbn [publish told stream_ok] in *; [reflexivity|].
  destruct (handle st o) as [[st' r] ids]. destruct H as (Hids & Ho & Hrest).
  destruct o as [x pts|x par pts]; [|contradiction]. destruct Ho as (Hx & og & Hog). rewrite Hog.
  destruct (single_origin_spec _ _ Hog) as (Hne & Hor).
  pose proof (deliver_msgs_np c x pts og ids Hx Hids Hne Hor) as Hd.
  rewrite deliver_all_app; rewrite Hd; [|reflexivity]. cbn [fst snd]. rewrite (IH st' Hrest). reflexivity.
Qed.
End Order.

(* nothing written outside the subtree of c reaches the client of c: if no upward walk from the written node
   (through live edges for node points, any edges for edge points) ends in c, no message of the request
   matches its subscription (from C06: the store republishes exactly along those walks) *)
Theorem C08_only_subtree_proof : forall st o c,
  wf st -> Inv st -> op_ok o -> op_nodot o -> Forall nodot (pubs_of (handle st o)) ->
  let st' := state_of (handle st o) in
  ~ (exists l, gswalk (s_edges st') (sel_of (match o with NodePts _ _ => false | EdgePts _ _ _ => true end))
                      (match o with NodePts id _ => id | EdgePts id _ _ => id end) l /\
               gendpoint (match o with NodePts id _ => id | EdgePts id _ _ => id end) l = c) ->
  deliver_all c (msgs_of o (pubs_of (handle st o))) = ([], None).
Proof.
  intros st o c W HI Hok Hnd Hids st' Hnw.
  destruct (N.eq_dec (reply_of (handle st o)) 0) as [Hr|Hr].
  - apply deliver_msgs_none; auto. intros Hin.
    apply (handle_pubs st o W HI Hok Hr) in Hin. apply Hnw. destruct o; exact Hin.
  - rewrite (proj2 (error_no_trace st o Hr)). reflexivity.
Qed.

(* ===================================================================== *)
(* statements for reachable states (used by Properties/C07.v)             *)
(* ===================================================================== *)
Lemma reachable_flags hist : let st := fst (run m_init hist) in
  wfm st /\ (m_stopping st = false -> m_done st = false).
Proof.
  cbv zeta. pose proof (run_wfm hist m_init wfm_init) as W. split; [exact W|].
  intros Hs. destruct (m_done (fst (run m_init hist))) eqn:E; [|reflexivity]. pose proof (wfm_done _ W E). congruence.
Qed.

Theorem C07_drain_reachable : forall hist V,
  let st := fst (run m_init hist) in
  m_stopping st = false ->
  let st1 := fst (step st (Scan V)) in
  let st2 := fst (drain (S (length (m_clients st1))) st1 V) in
  no_pending st2 /\ m_stopping st2 = false /\
  exists es, Forall (at_view V) es /\ In (Scan V) es /\ fst (run m_init (hist ++ es)) = st2.
Proof.
  intros hist V st Hs. destruct (reachable_flags hist) as (W & Hd). fold st in W, Hd.
  destruct (C07_drain_proof st V W (Hd Hs) Hs) as (H1 & H2 & es & H3 & H4 & H5).
  split; [exact H1|]. split; [exact H2|]. exists es. split; [exact H3|]. split; [exact H4|].
  rewrite run_app. subst st. destruct (run m_init hist) as [s a]. cbn [fst] in *.
  destruct (run s es) as [s' a']. exact H5.
Qed.

Theorem C07_stop_reachable : forall hist V,
  let st := fst (run m_init hist) in
  m_stopping st = false ->
  let st1 := fst (step st Stop) in
  (forall k, In (AStopReq k) (snd (step st Stop)) <-> In k (keys (m_clients st))) /\ all_stopping st1 /\
  (forall es, starts (snd (run st1 es)) = []) /\
  (forall ks, NoDup ks -> (forall k, In k ks <-> In k (keys (m_clients st))) ->
     let st2 := fst (run st1 (map (fun k => ClientExited k V) ks)) in m_done st2 = true /\ m_clients st2 = []).
Proof.
  intros hist V st Hs. destruct (reachable_flags hist) as (W & Hd). fold st in W, Hd.
  exact (C07_stop_returns_proof st V W Hs (Hd Hs)).
Qed.

(* a stop request from the subscription of client k (a child of its node was added or removed), the exit of the
   client and the rescan: a fresh client for k constructed with what that rescan finds *)
Theorem C07_child_restart_proof : forall hist V k u p,
  let st := fst (run m_init hist) in
  m_stopping st = false -> In k (keys (m_clients st)) ->
  In p V -> pl_key p = k -> (forall q, In q V -> pl_key q = k -> q = p) ->
  let r := run st [UpEdge k u; ClientExited k V] in
  In (AExit k) (snd r) /\ In (AStart p) (snd r) /\ In (client_of p) (m_clients (fst r)).
Proof.
  intros hist V k u p st Hs Hk Hp Hkp Huniq. destruct (reachable_flags hist) as (W & Hd). fold st in W, Hd.
  specialize (Hd Hs).
  apply has_key_In in Hk.
  set (st1 := mkM (map (fun c => if bytes_eqb (cs_key c) k then set_stopping c else c) (m_clients st)) (m_stopping st) false).
  assert (E1 : step st (UpEdge k u) = (st1, [AStopReq k])) by (unfold step; rewrite Hd, Hk; reflexivity).
  assert (Ee : existsb (fun c => bytes_eqb (cs_key c) k && cs_stopping c) (m_clients st1) = true).
  { apply has_key_In in Hk. apply in_map_iff in Hk as (c & Ec & Hc). apply existsb_exists.
    exists (set_stopping c). split.
    - cbn. apply in_map_iff. exists c. split; [|exact Hc]. rewrite Ec, bytes_eqb_refl. reflexivity.
    - cbn. rewrite Ec, bytes_eqb_refl. reflexivity. }
  set (cl' := filter (fun c => negb (bytes_eqb (cs_key c) k)) (m_clients st1)).
  destruct (do_scan (mkM cl' false false) V) as [st2 a2] eqn:E2.
  assert (E3 : step st1 (ClientExited k V) = (st2, AExit k :: a2)).
  { assert (Hs1 : m_stopping st1 = false) by exact Hs. assert (Hd1 : m_done st1 = false) by reflexivity.
    unfold step. rewrite Hd1, Ee, Hs1. fold cl'. rewrite E2. reflexivity. }
  cbn [run]. rewrite E1, E3. cbn [fst snd app].
  destruct (do_scan_spec _ _ _ _ E2) as (_ & _ & _ & Hi & _ & Hks & _ & _ & Hin). cbn [m_clients] in *.
  assert (Hnk : ~ In k (keys cl')).
  { unfold cl', keys. intros Hc. apply in_map_iff in Hc as (c & Ec & Hc). apply filter_In in Hc as (_ & Hb).
    rewrite Ec, bytes_eqb_refl in Hb. discriminate. }
  assert (Hst : In k (vkeys (starts a2))).
  { apply Hks. split; [|exact Hnk]. rewrite <- Hkp. apply in_map. exact Hp. }
  apply in_map_iff in Hst as (p0 & Ep0 & Hp0).
  assert (p0 = p) by (apply Huniq; [apply Hi; exact Hp0|exact Ep0]). subst p0.
  split; [right; left; reflexivity|]. split.
  - right. right. rewrite app_nil_r. clear - Hp0. unfold starts in Hp0. apply in_flat_map in Hp0 as (x & Hx & Hp0).
    destruct x; cbn in Hp0; try contradiction. destruct Hp0 as [->|[]]. exact Hx.
  - assert (Hc : exists c', In c' (m_clients st2) /\ cs_key c' = k /\ cs_pl c' = p /\ cs_stopping c' = false).
    { assert (Hex : exists c, In c (cl' ++ map client_of (starts a2)) /\ cs_key (client_of p) = cs_key c /\
                              cs_pl (client_of p) = cs_pl c /\
                              false = (cs_stopping c || negb (in_view (cs_key c) V))).
      { exists (client_of p). split; [apply in_or_app; right; apply in_map; exact Hp0|]. cbn.
        assert (Hv : in_view (pl_key p) V = true) by (apply in_view_In; apply in_map; exact Hp).
        rewrite Hv. auto. }
      pose proof (proj2 (Hin (client_of p)) Hex) as Hcl. exists (client_of p). cbn. auto. }
    destruct Hc as (c' & Hc' & F1 & F2 & F3). destruct c' as [k' p' s']. cbn in F1, F2, F3. subst k' p' s'. rewrite <- Hkp in Hc'. exact Hc'.
Qed.
