(* The pinned client/manager.go (before the repair of finding F6): scan returns
   early when the scan finds no node of the managed type, so a scan never stops
   the last client.  The quiescence statement is false of this machine. *)
From Coq Require Import List NArith Bool.
Import ListNotations.
From Verif Require Import Base.Bytes Store.Model Manager.Model Manager.Proofs.
Local Open Scope N_scope.

(* scan of the pinned code: `if len(nodes) == 0 { return nil }` before both loops *)
Definition do_scan_pinned (st : mstate) (view : list placement) : mstate * list action :=
  match view with
  | [] => (st, [])
  | _ => do_scan st view
  end.

Definition step_pinned (st : mstate) (e : event) : mstate * list action :=
  if m_done st then (st, []) else
  match e with
  | Scan view => if m_stopping st then (st, []) else do_scan_pinned st view
  | ClientExited k view =>
      if existsb (fun c => bytes_eqb (cs_key c) k && cs_stopping c) (m_clients st) then
        let cl' := filter (fun c => negb (bytes_eqb (cs_key c) k)) (m_clients st) in
        if m_stopping st
        then (mkM cl' true (match cl' with [] => true | _ => false end), [AExit k])
        else let '(st', a) := do_scan_pinned (mkM cl' false false) view in (st', AExit k :: a)
      else (st, [])
  | _ => step st e
  end.

Fixpoint run_pinned (st : mstate) (es : list event) : mstate * list action :=
  match es with
  | [] => (st, [])
  | e :: es' => let '(st1, a1) := step_pinned st e in let '(st2, a2) := run_pinned st1 es' in (st2, a1 ++ a2)
  end.

(* the history of F6 on the store: root r, group g under r, node n of the managed type under g *)
Definition lg_r : bytes := [114]. Definition lg_g : bytes := [103]. Definition lg_n : bytes := [110].
Definition lg_T : bytes := [99;48;55;78;111;100;101].
Definition lg_edge (up down ty : bytes) (tomb : N) : edge_view :=
  mkView up down ty 0 [mkPoint str_tombstone str_0 1 tomb [] [] 0 []] [].
Definition lg_before : list edge_view :=
  [lg_edge str_root lg_r [100] 0; lg_edge lg_r lg_g str_group 0; lg_edge lg_g lg_n lg_T 0].
Definition lg_after : list edge_view :=      (* the group deleted: tombstone = 1.0 on the edge r -> g *)
  [lg_edge str_root lg_r [100] 0; lg_edge lg_r lg_g str_group 0x3FF0000000000000; lg_edge lg_g lg_n lg_T 0].

Definition lg_V0 := scan_view lg_before lg_r lg_T [].
Definition lg_V := scan_view lg_after lg_r lg_T [].

(* create group; create node under it; scan; delete the group (the client's own subscription up.n.> sees nothing
   of it: no UpEdge); scan: the store stays at V = nothing placed, a scan happens, no stop request is pending, and
   still a client runs for a node that is no longer placed *)
Theorem C07_current_refuted :
  exists (hist : list event) (V : list placement) (drain : list event),
    Forall (at_view V) drain /\ In (Scan V) drain /\
    let st := fst (run_pinned m_init (hist ++ drain)) in
    m_stopping st = false /\ no_pending st /\
    V = [] /\ keys (m_clients st) = [mapkey lg_g lg_n] /\
    placements lg_after lg_r lg_T [] = [].
Proof.
  exists [Scan lg_V0], lg_V, [Scan lg_V]. split; [constructor; [left; reflexivity|constructor]|].
  split; [left; reflexivity|]. vm_compute. repeat split.
  intros c [<-|[]]. reflexivity.
Qed.

(* the repaired machine stops it *)
Example C07_repaired_stops :
  let st := fst (run m_init [Scan lg_V0; Scan lg_V; ClientExited (mapkey lg_g lg_n) lg_V]) in
  m_clients st = [].
Proof. vm_compute. reflexivity. Qed.
