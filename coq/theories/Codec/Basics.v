(* Lemmas about the string-level helpers of Codec/Model.v: strconv.Itoa /
   Atoi, the order on byte strings, sorted association lists. *)
From Coq Require Import ZifyN ZifyNat ZifyBool.
From Verif Require Import Base.Bytes Base.Val Codec.Model.
Local Open Scope N_scope.

(* ------------------------------------------------------------------ *)
(* Itoa / Atoi                                                          *)
(* ------------------------------------------------------------------ *)
Lemma parse_digits_app l1 : forall l2 acc,
  parse_digits (l1 ++ l2) acc =
  match parse_digits l1 acc with Some a => parse_digits l2 a | None => None end.
Proof.
  induction l1 as [|c l1 IH]; intros l2 acc; cbn; [reflexivity|].
  destruct (is_digit c); [apply IH|reflexivity].
Qed.

Lemma digits_acc f : forall n acc, digits f n acc = digits f n [] ++ acc.
Proof.
  induction f as [|f IH]; intros n acc; cbn [digits]; [reflexivity|].
  destruct (n <? 10); [reflexivity|].
  rewrite (IH (n / 10) ((48 + n mod 10) :: acc)), (IH (n / 10) [48 + n mod 10]).
  rewrite <- app_assoc. reflexivity.
Qed.

Lemma is_digit_48 n : is_digit (48 + n mod 10) = true.
Proof. unfold is_digit. pose proof (N.mod_upper_bound n 10). lia. Qed.

Lemma parse_digits_digits f : forall n,
  n < 10 ^ N.of_nat f -> parse_digits (digits f n []) 0 = Some n.
Proof.
  induction f as [|f IH]; intros n Hn.
  - cbn in Hn. assert (n = 0) by lia. subst. reflexivity.
  - cbn [digits]. destruct (N.ltb_spec n 10) as [Hlt|Hge].
    + cbn [parse_digits]. rewrite is_digit_48. rewrite N.mod_small by assumption.
      f_equal. lia.
    + rewrite digits_acc, parse_digits_app.
      rewrite IH.
      * cbn [parse_digits]. rewrite is_digit_48. f_equal.
        pose proof (N.div_mod n 10). lia.
      * rewrite Nat2N.inj_succ, N.pow_succ_r' in Hn.
        apply N.div_lt_upper_bound; lia.
Qed.

Lemma digits_head f : forall n d acc,
  is_digit d = true -> exists c r, digits f n (d :: acc) = c :: r /\ is_digit c = true.
Proof.
  induction f as [|f IH]; intros n d acc Hd; cbn [digits]; [eauto|].
  destruct (n <? 10).
  - exists (48 + n mod 10), (d :: acc). split; [reflexivity|apply is_digit_48].
  - apply IH. apply is_digit_48.
Qed.

Lemma digits_S_head f n : exists c r, digits (S f) n [] = c :: r /\ is_digit c = true.
Proof.
  change (digits (S f) n []) with (if n <? 10 then [48 + n mod 10] else digits f (n / 10) [48 + n mod 10]).
  destruct (n <? 10).
  - exists (48 + n mod 10), []. split; [reflexivity|apply is_digit_48].
  - apply digits_head, is_digit_48.
Qed.

Lemma itoa_head n : exists c r, itoa n = c :: r /\ is_digit c = true.
Proof. unfold itoa. apply (digits_S_head 19 n). Qed.

Lemma atoi_itoa n : n < 2^63 -> atoi (itoa n) = Some (Z.of_N n).
Proof.
  intros Hn. destruct (itoa_head n) as (c & r & E & Hc).
  assert (Hp : parse_digits (itoa n) 0 = Some n).
  { unfold itoa. apply parse_digits_digits. change (10 ^ N.of_nat 20) with 100000000000000000000. lia. }
  unfold atoi. rewrite E in *. unfold is_digit in Hc.
  assert (c =? 43 = false) as -> by lia. assert (c =? 45 = false) as -> by lia.
  rewrite Hp. assert (n <? 2^63 = true) as -> by lia. reflexivity.
Qed.

Lemma key_index_itoa n : n < 2^63 -> key_index (itoa n) = Some n.
Proof.
  intros Hn. unfold key_index. destruct (itoa_head n) as (c & r & E & _).
  rewrite E. cbn [norm_key]. rewrite <- E, atoi_itoa by assumption.
  assert ((Z.of_N n <? 0)%Z = false) as -> by lia. f_equal. lia.
Qed.

Lemma itoa_nonempty n : nonempty (itoa n) = true.
Proof. destruct (itoa_head n) as (c & r & E & _). rewrite E. reflexivity. Qed.

Lemma norm_key_itoa n : norm_key (itoa n) = itoa n.
Proof. destruct (itoa_head n) as (c & r & E & _). rewrite E. reflexivity. Qed.

Lemma norm_key_nonempty k : nonempty k = true -> norm_key k = k.
Proof. destruct k; [discriminate|reflexivity]. Qed.

Lemma itoa_inj a b : a < 2^63 -> b < 2^63 -> itoa a = itoa b -> a = b.
Proof.
  intros Ha Hb E. pose proof (key_index_itoa a Ha) as H1. rewrite E, key_index_itoa in H1 by assumption.
  congruence.
Qed.

(* ------------------------------------------------------------------ *)
(* byte strings: equality and order                                     *)
(* ------------------------------------------------------------------ *)
Lemma bytes_eqb_sym a b : bytes_eqb a b = bytes_eqb b a.
Proof.
  destruct (bytes_eqb a b) eqn:E1, (bytes_eqb b a) eqn:E2; try reflexivity.
  - apply bytes_eqb_eq in E1. subst. rewrite bytes_eqb_refl in E2. discriminate.
  - apply bytes_eqb_eq in E2. subst. rewrite bytes_eqb_refl in E1. discriminate.
Qed.

Lemma bytes_eqb_neq a b : bytes_eqb a b = false <-> a <> b.
Proof.
  split.
  - intros E ->. rewrite bytes_eqb_refl in E. discriminate.
  - intros H. destruct (bytes_eqb a b) eqn:E; [|reflexivity]. apply bytes_eqb_eq in E. contradiction.
Qed.

Lemma bytes_ltb_irrefl a : bytes_ltb a a = false.
Proof. induction a as [|x a IH]; cbn; [reflexivity|]. rewrite N.ltb_irrefl. assumption. Qed.

Lemma bytes_ltb_trans a : forall b c, bytes_ltb a b = true -> bytes_ltb b c = true -> bytes_ltb a c = true.
Proof.
  induction a as [|x a IH]; intros [|y b] [|z c]; cbn; try discriminate; try reflexivity.
  destruct (N.ltb_spec x y), (N.ltb_spec y x), (N.ltb_spec y z), (N.ltb_spec z y),
           (N.ltb_spec x z), (N.ltb_spec z x); try discriminate; try reflexivity; try lia.
  apply IH.
Qed.

Lemma bytes_ltb_asym a : forall b, bytes_ltb a b = true -> bytes_ltb b a = false.
Proof.
  intros b H. destruct (bytes_ltb b a) eqn:E; [|reflexivity].
  pose proof (bytes_ltb_trans a b a H E) as C. rewrite bytes_ltb_irrefl in C. discriminate.
Qed.

Lemma bytes_ltb_neq a b : bytes_ltb a b = true -> bytes_eqb a b = false.
Proof.
  intros H. apply bytes_eqb_neq. intros ->. rewrite bytes_ltb_irrefl in H. discriminate.
Qed.

Lemma bytes_ltb_total a : forall b, bytes_ltb a b = false -> bytes_eqb a b = false -> bytes_ltb b a = true.
Proof.
  induction a as [|x a IH]; intros [|y b]; cbn; try discriminate; try reflexivity.
  unfold bytes_eqb in *. cbn.
  destruct (N.ltb_spec x y), (N.ltb_spec y x); try discriminate; try reflexivity; try lia.

Qed.

(* ------------------------------------------------------------------ *)
(* sorted association lists                                             *)
(* ------------------------------------------------------------------ *)
Definition keys_gt (k : bytes) (m : list (bytes * pval)) : Prop :=
  Forall (fun kv => bytes_ltb k (fst kv) = true) m.

Lemma sorted_cons k v m :
  sorted_keys ((k, v) :: m) = true <-> keys_gt k m /\ sorted_keys m = true.
Proof.
  revert k v. induction m as [|[k' v'] m IH]; intros k v.
  - cbn. split; [intros _; split; [constructor|reflexivity]|reflexivity].
  - change (sorted_keys ((k, v) :: (k', v') :: m)) with (bytes_ltb k k' && sorted_keys ((k', v') :: m)).
    rewrite andb_true_iff. split.
    + intros [H1 H2]. split; [|assumption]. constructor; [assumption|].
      apply IH in H2. destruct H2 as [H2 _].
      eapply Forall_impl; [|exact H2]. intros kv Hkv. eapply bytes_ltb_trans; eassumption.
    + intros [H1 H2]. inversion H1; subst. split; assumption.
Qed.

Lemma lookup_gt k m : keys_gt k m -> m_lookup k m = None.
Proof.
  induction m as [|[k' v'] m IH]; intros H; cbn; [reflexivity|].
  inversion H; subst. cbn in *. rewrite (bytes_ltb_neq _ _ H2). apply IH. assumption.
Qed.

Lemma lookup_insert k k' v m :
  m_lookup k (m_insert k' v m) = if bytes_eqb k k' then Some v else m_lookup k m.
Proof.
  induction m as [|[k1 v1] m IH]; cbn; [reflexivity|].
  destruct (bytes_eqb k' k1) eqn:E1.
  - apply bytes_eqb_eq in E1. subst k1. cbn. destruct (bytes_eqb k k'); reflexivity.
  - destruct (bytes_ltb k' k1) eqn:E2; cbn.
    + destruct (bytes_eqb k k') eqn:E3; [reflexivity|]. reflexivity.
    + destruct (bytes_eqb k k1) eqn:E3.
      * apply bytes_eqb_eq in E3. subst k1. rewrite bytes_eqb_sym in E1. rewrite E1. reflexivity.
      * apply IH.
Qed.

Lemma keys_gt_insert k0 k v m :
  keys_gt k0 m -> bytes_ltb k0 k = true -> keys_gt k0 (m_insert k v m).
Proof.
  induction m as [|[k1 v1] m IH]; intros H Hk; cbn.
  - constructor; [assumption|constructor].
  - inversion H; subst.
    destruct (bytes_eqb k k1); [constructor; assumption|].
    destruct (bytes_ltb k k1); [constructor; assumption|].
    constructor; [assumption|apply IH; assumption].
Qed.

Lemma sorted_insert k v m : sorted_keys m = true -> sorted_keys (m_insert k v m) = true.
Proof.
  induction m as [|[k1 v1] m IH]; intros H; cbn; [reflexivity|].
  apply sorted_cons in H. destruct H as [Hg Hs].
  destruct (bytes_eqb k k1) eqn:E1.
  - apply bytes_eqb_eq in E1. subst. apply sorted_cons. split; assumption.
  - destruct (bytes_ltb k k1) eqn:E2.
    + apply sorted_cons. split.
      * constructor; [assumption|]. eapply Forall_impl; [|exact Hg].
        intros kv Hkv. eapply bytes_ltb_trans; eassumption.
      * apply sorted_cons. split; assumption.
    + apply sorted_cons. split; [|apply IH; assumption].
      apply keys_gt_insert; [assumption|]. apply bytes_ltb_total; [assumption|assumption].
Qed.

Lemma keys_gt_delete k0 k m : keys_gt k0 m -> keys_gt k0 (m_delete k m).
Proof.
  induction m as [|[k1 v1] m IH]; intros H; cbn; [constructor|].
  inversion H; subst. destruct (bytes_eqb k k1); [assumption|].
  constructor; [assumption|apply IH; assumption].
Qed.

Lemma sorted_delete k m : sorted_keys m = true -> sorted_keys (m_delete k m) = true.
Proof.
  induction m as [|[k1 v1] m IH]; intros H; cbn; [reflexivity|].
  apply sorted_cons in H. destruct H as [Hg Hs].
  destruct (bytes_eqb k k1); [assumption|].
  apply sorted_cons. split; [apply keys_gt_delete; assumption|apply IH; assumption].
Qed.

Lemma lookup_delete k k' m :
  sorted_keys m = true ->
  m_lookup k (m_delete k' m) = if bytes_eqb k k' then None else m_lookup k m.
Proof.
  induction m as [|[k1 v1] m IH]; intros H; cbn.
  - destruct (bytes_eqb k k'); reflexivity.
  - apply sorted_cons in H. destruct H as [Hg Hs].
    destruct (bytes_eqb k' k1) eqn:E1.
    + apply bytes_eqb_eq in E1. subst k1.
      destruct (bytes_eqb k k') eqn:E2.
      * apply bytes_eqb_eq in E2. subst. apply lookup_gt. assumption.
      * reflexivity.
    + cbn. destruct (bytes_eqb k k1) eqn:E2.
      * apply bytes_eqb_eq in E2. subst k1. rewrite bytes_eqb_sym in E1. rewrite E1. reflexivity.
      * apply IH. assumption.
Qed.

Lemma sorted_ext : forall m1 m2,
  sorted_keys m1 = true -> sorted_keys m2 = true ->
  (forall k, m_lookup k m1 = m_lookup k m2) -> m1 = m2.
Proof.
  induction m1 as [|[k1 v1] m1 IH]; intros [|[k2 v2] m2] H1 H2 Hl.
  - reflexivity.
  - specialize (Hl k2). cbn in Hl. rewrite bytes_eqb_refl in Hl. discriminate.
  - specialize (Hl k1). cbn in Hl. rewrite bytes_eqb_refl in Hl. discriminate.
  - apply sorted_cons in H1. destruct H1 as [G1 S1].
    apply sorted_cons in H2. destruct H2 as [G2 S2].
    destruct (bytes_eqb k1 k2) eqn:E.
    + apply bytes_eqb_eq in E. subst k2.
      pose proof (Hl k1) as Hk. cbn in Hk. rewrite bytes_eqb_refl in Hk. inversion Hk; subst v2.
      f_equal. apply IH; [assumption|assumption|].
      intros k. destruct (bytes_eqb k k1) eqn:Ek.
      * apply bytes_eqb_eq in Ek. subst. rewrite !lookup_gt by assumption. reflexivity.
      * specialize (Hl k). cbn in Hl. rewrite Ek in Hl. assumption.
    + exfalso. destruct (bytes_ltb k1 k2) eqn:L.
      * specialize (Hl k1). cbn in Hl. rewrite bytes_eqb_refl, E in Hl.
        rewrite lookup_gt in Hl; [discriminate|].
        eapply Forall_impl; [|exact G2]. intros kv Hkv. eapply bytes_ltb_trans; eassumption.
      * pose proof (bytes_ltb_total _ _ L E) as L'.
        specialize (Hl k2). cbn in Hl. rewrite bytes_eqb_refl in Hl.
        rewrite bytes_eqb_sym in E. rewrite E in Hl.
        rewrite lookup_gt in Hl; [discriminate|].
        eapply Forall_impl; [|exact G1]. intros kv Hkv. eapply bytes_ltb_trans; eassumption.
Qed.

Lemma lookup_In k v m : m_lookup k m = Some v -> In (k, v) m.
Proof.
  induction m as [|[k1 v1] m IH]; cbn; [discriminate|].
  destruct (bytes_eqb k k1) eqn:E.
  - apply bytes_eqb_eq in E. subst. intros H. inversion H. left. reflexivity.
  - intros H. right. apply IH. assumption.
Qed.

Lemma In_lookup k v m : sorted_keys m = true -> In (k, v) m -> m_lookup k m = Some v.
Proof.
  induction m as [|[k1 v1] m IH]; intros Hs Hin; [destruct Hin|].
  apply sorted_cons in Hs. destruct Hs as [Hg Hs]. cbn.
  destruct Hin as [E|Hin].
  - inversion E; subst. rewrite bytes_eqb_refl. reflexivity.
  - destruct (bytes_eqb k k1) eqn:E.
    + apply bytes_eqb_eq in E. subst k1. exfalso.
      unfold keys_gt in Hg. rewrite Forall_forall in Hg. specialize (Hg _ Hin). cbn in Hg.
      rewrite bytes_ltb_irrefl in Hg. discriminate.
    + apply IH; assumption.
Qed.
