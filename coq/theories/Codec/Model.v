(* C10 / C11: executable model of data/encode.go (Encode, DiffPoints),
   data/decode.go (Decode, GroupedPoints.SetValue, setVal) and data/merge.go
   (MergePoints, MergeEdgePoints) as they are after the repair of F8, over a
   universe of field kinds mirroring what the reflection code accepts.
   No proofs here: the model must keep running when a proof breaks.

   Strings are byte lists, float64 / float32 values are IEEE bit patterns,
   Go [int] is 64 bit.  A Go panic is the explicit outcome [Panic]; an error
   return is [Err a] where [a] is the (partly updated) destination, because
   Decode keeps going after a field error (errors.Join) and the caller keeps
   the struct. *)
From Verif Require Import Base.Bytes Base.Val.
Local Open Scope N_scope.

Inductive outcome (A : Type) :=
| Ok (a : A)
| Err (a : A)
| Panic.
Arguments Ok {A} a.
Arguments Err {A} a.
Arguments Panic {A}.

(* ------------------------------------------------------------------ *)
(* float64 / float32 bit patterns (hardware semantics, amd64)          *)
(* ------------------------------------------------------------------ *)
Definition f64_sign (b : N) : N := b / 2^63.
Definition f64_exp (b : N) : N := (b / 2^52) mod 2^11.
Definition f64_man (b : N) : N := b mod 2^52.
Definition f64_is_nan (b : N) : bool := (f64_exp b =? 2047) && negb (f64_man b =? 0).
Definition f64_is_zero (b : N) : bool := b mod 2^63 =? 0.
Definition f64_one : N := 1023 * 2^52.
Definition f64_negzero : N := 2^63.

(* Go's == on float64 *)
Definition f64_eq (a b : N) : bool :=
  negb (f64_is_nan a) && negb (f64_is_nan b) && ((a =? b) || (f64_is_zero a && f64_is_zero b)).
(* x < 0 *)
Definition f64_lt0 (b : N) : bool :=
  (f64_sign b =? 1) && negb (f64_is_nan b) && negb (f64_is_zero b).

(* |x| truncated toward zero, for finite x below 2^64 *)
Definition f64_trunc_mag (b : N) : N :=
  let e := f64_exp b in
  let M := 2^52 + f64_man b in
  if e <? 1023 then 0
  else if e <? 1075 then M / 2^(1075 - e) else M * 2^(e - 1075).

(* int64(x): CVTTSD2SQ; NaN and everything outside the range give -2^63 *)
Definition f64_to_int64 (b : N) : Z :=
  if 1086 <=? f64_exp b then (- 2^63)%Z
  else if f64_sign b =? 1 then (- Z.of_N (f64_trunc_mag b))%Z else Z.of_N (f64_trunc_mag b).

(* uint64(x) for x that is not < 0 (the code checks that first): values from
   2^64 on and NaN give 2^63 *)
Definition f64_to_uint64 (b : N) : Z :=
  if 1087 <=? f64_exp b then (2^63)%Z else Z.of_N (f64_trunc_mag b).

(* float64(n) for an integer; exact for n < 2^53 (the only use: Encode refuses
   larger magnitudes), truncating above *)
Definition f64_of_N (n : N) : N :=
  if n =? 0 then 0
  else let k := N.log2 n in
       if k <=? 52 then (1023 + k) * 2^52 + (n * 2^(52 - k) - 2^52)
       else (1023 + k) * 2^52 + (n / 2^(k - 52) - 2^52).
Definition f64_of_Z (z : Z) : N :=
  match z with
  | Z0 => 0
  | Zpos p => f64_of_N (Npos p)
  | Zneg p => 2^63 + f64_of_N (Npos p)
  end.

Definition f32_is_nan (b : N) : bool := ((b / 2^23) mod 2^8 =? 255) && negb (b mod 2^23 =? 0).
Definition f32_is_zero (b : N) : bool := b mod 2^31 =? 0.
(* Go's == on float32 (also after conversion of both sides to float64, which is exact) *)
Definition f32_eq (a b : N) : bool :=
  negb (f32_is_nan a) && negb (f32_is_nan b) && ((a =? b) || (f32_is_zero a && f32_is_zero b)).

(* float64(x) for a float32 x: exact *)
Definition f64_of_f32 (b : N) : N :=
  let s := b / 2^31 in
  let e := (b / 2^23) mod 2^8 in
  let m := b mod 2^23 in
  let sb := s * 2^63 in
  if e =? 255 then
    (if m =? 0 then sb + 2047 * 2^52 else sb + 2047 * 2^52 + N.lor (2^51) (m * 2^29))
  else if e =? 0 then
    (if m =? 0 then sb
     else let k := N.log2 m in sb + (k + 874) * 2^52 + (m * 2^(52 - k) - 2^52))
  else sb + (e + 896) * 2^52 + m * 2^29.

(* float32(x) for a float64 x: round to nearest even, overflow to infinity,
   NaN keeps its upper payload bits and becomes quiet (CVTSD2SS) *)
Definition f32_of_f64 (b : N) : N :=
  let s := f64_sign b in
  let e := f64_exp b in
  let m := f64_man b in
  let sb := s * 2^31 in
  if e =? 2047 then
    (if m =? 0 then sb + 255 * 2^23 else sb + 255 * 2^23 + N.lor (2^22) (m / 2^29))
  else if e <? 840 then sb
  else
    let M := 2^52 + m in
    let eo := e - 897 in
    let sh := eo + 926 - e in
    let q := M / 2^sh in
    let r := M mod 2^sh in
    let half := 2^(sh - 1) in
    let q' := if (half <? r) || ((r =? half) && N.odd q) then q + 1 else q in
    let mag := eo * 2^23 + q' in
    if 255 * 2^23 <=? mag then sb + 255 * 2^23 else sb + mag.

(* ------------------------------------------------------------------ *)
(* strconv.Atoi / strconv.Itoa                                          *)
(* ------------------------------------------------------------------ *)
Definition is_digit (c : N) : bool := (48 <=? c) && (c <=? 57).

Fixpoint parse_digits (l : bytes) (acc : N) : option N :=
  match l with
  | [] => Some acc
  | c :: l' => if is_digit c then parse_digits l' (10 * acc + (c - 48)) else None
  end.

(* None = Atoi returned an error (syntax or range) *)
Definition atoi (s : bytes) : option Z :=
  match s with
  | [] => None
  | c :: r =>
      if c =? 43 then                      (* '+' *)
        match r with
        | [] => None
        | _ => match parse_digits r 0 with
               | Some n => if n <? 2^63 then Some (Z.of_N n) else None
               | None => None
               end
        end
      else if c =? 45 then                 (* '-' *)
        match r with
        | [] => None
        | _ => match parse_digits r 0 with
               | Some n => if n <=? 2^63 then Some (- Z.of_N n)%Z else None
               | None => None
               end
        end
      else match parse_digits s 0 with
           | Some n => if n <? 2^63 then Some (Z.of_N n) else None
           | None => None
           end
  end.

Fixpoint digits (fuel : nat) (n : N) (acc : bytes) : bytes :=
  match fuel with
  | O => acc
  | S f => let acc' := (48 + n mod 10) :: acc in
           if n <? 10 then acc' else digits f (n / 10) acc'
  end.
Definition itoa (n : N) : bytes := digits 20 n [].

Definition key0 : bytes := [48].
(* "a blank Key is treated like 0" *)
Definition norm_key (k : bytes) : bytes := match k with [] => key0 | _ => k end.

(* the index a key denotes in Decode's grouping: None = KeyNotIndex *)
Definition key_index (k : bytes) : option N :=
  match atoi (norm_key k) with
  | Some z => if (z <? 0)%Z then None else Some (Z.to_N z)
  | None => None
  end.

(* ------------------------------------------------------------------ *)
(* universe of configuration types and values                           *)
(* ------------------------------------------------------------------ *)
Inductive prim :=
| PBool
| PInt (w : N)      (* 8 16 32 64; Go int is PInt 64 *)
| PUint (w : N)
| PF32
| PF64
| PStr.

Inductive kind :=
| KScalar (p : prim)
| KPtr (p : prim)
| KSlice (p : prim)
| KArray (n : nat) (p : prim)
| KMap (p : prim)                       (* map[string]p *)
| KStruct (fs : list (bytes * prim))    (* flat struct: key, element type *)
| KPtrStruct (fs : list (bytes * prim)).

Record field := { f_edge : bool; f_type : bytes; f_kind : kind }.
Definition cfgty := list field.

Inductive pval :=
| VBool (b : bool)
| VInt (z : Z)
| VF32 (b : N)
| VF64 (b : N)
| VStr (s : bytes).

Inductive fval :=
| FScalar (v : pval)
| FPtr (o : option pval)
| FList (l : list pval)                 (* slice or array; nil = empty *)
| FMap (m : list (bytes * pval))        (* sorted by key, keys unique; nil = empty *)
| FStruct (l : list pval)
| FPtrStruct (o : option (list pval)).

(* a configuration struct: `node:"id"`, `node:"parent"` and the tagged fields *)
Record cfg := { c_id : bytes; c_parent : bytes; c_vals : list fval }.

Record point := { p_type : bytes; p_key : bytes; p_value : N; p_text : bytes; p_tomb : Z }.

Definition zero_prim (p : prim) : pval :=
  match p with
  | PBool => VBool false
  | PInt _ | PUint _ => VInt 0
  | PF32 => VF32 0
  | PF64 => VF64 0
  | PStr => VStr []
  end.

Definition zero_kind (k : kind) : fval :=
  match k with
  | KScalar p => FScalar (zero_prim p)
  | KPtr _ => FPtr None
  | KSlice _ => FList []
  | KArray n p => FList (repeat (zero_prim p) n)
  | KMap _ => FMap []
  | KStruct fs => FStruct (map (fun kp => zero_prim (snd kp)) fs)
  | KPtrStruct _ => FPtrStruct None
  end.

Definition zero_cfg (ty : cfgty) : cfg :=
  {| c_id := []; c_parent := []; c_vals := map (fun f => zero_kind (f_kind f)) ty |}.

(* ---------- equality tests ---------- *)
Definition pval_eqb (a b : pval) : bool :=
  match a, b with
  | VBool x, VBool y => Bool.eqb x y
  | VInt x, VInt y => (x =? y)%Z
  | VF32 x, VF32 y => x =? y
  | VF64 x, VF64 y => x =? y
  | VStr x, VStr y => bytes_eqb x y
  | _, _ => false
  end.

Definition kv_eqb (a b : bytes * pval) : bool := bytes_eqb (fst a) (fst b) && pval_eqb (snd a) (snd b).

Definition fval_eqb (a b : fval) : bool :=
  match a, b with
  | FScalar x, FScalar y => pval_eqb x y
  | FPtr x, FPtr y => option_eqb pval_eqb x y
  | FList x, FList y => list_eqb pval_eqb x y
  | FMap x, FMap y => list_eqb kv_eqb x y
  | FStruct x, FStruct y => list_eqb pval_eqb x y
  | FPtrStruct x, FPtrStruct y => option_eqb (list_eqb pval_eqb) x y
  | _, _ => false
  end.

Definition cfg_eqb (a b : cfg) : bool :=
  bytes_eqb (c_id a) (c_id b) && bytes_eqb (c_parent a) (c_parent b) && list_eqb fval_eqb (c_vals a) (c_vals b).

Definition point_eqb (a b : point) : bool :=
  bytes_eqb (p_type a) (p_type b) && bytes_eqb (p_key a) (p_key b) && (p_value a =? p_value b)
  && bytes_eqb (p_text a) (p_text b) && (p_tomb a =? p_tomb b)%Z.

(* reflect.Value.Equal on primitives: == (floats: NaN differs from itself, -0 == +0) *)
Definition pval_goeq (a b : pval) : bool :=
  match a, b with
  | VF32 x, VF32 y => f32_eq x y
  | VF64 x, VF64 y => f64_eq x y
  | _, _ => pval_eqb a b
  end.

(* ------------------------------------------------------------------ *)
(* setVal / pointFromPrimitive                                          *)
(* ------------------------------------------------------------------ *)
Definition live (p : point) : bool := Z.even (p_tomb p).      (* Tombstone%2 == 0 *)

Definition int_fits (w : N) (z : Z) : bool :=
  ((- 2^(Z.of_N w - 1) <=? z) && (z <? 2^(Z.of_N w - 1)))%Z.
Definition uint_fits (w : N) (z : Z) : bool := ((0 <=? z) && (z <? 2^(Z.of_N w)))%Z.

(* setVal on a live point, destination of primitive type; None = error *)
Definition set_prim (pr : prim) (p : point) : option pval :=
  match pr with
  | PBool => Some (VBool (p_value p =? f64_one))
  | PInt w => let z := f64_to_int64 (p_value p) in
              if int_fits w z then Some (VInt z) else None
  | PUint w => if f64_lt0 (p_value p) then None
               else let z := f64_to_uint64 (p_value p) in
                    if uint_fits w z then Some (VInt z) else None
  | PF32 => Some (VF32 (f32_of_f64 (p_value p)))
  | PF64 => Some (VF64 (p_value p))
  | PStr => Some (VStr (p_text p))
  end.

Definition max_safe : Z := (2^53 - 1)%Z.
Definition max_size : nat := 1000.

(* pointFromPrimitive: (Value, Text); None = "float64 overflow" *)
Definition enc_pval (v : pval) : option (N * bytes) :=
  match v with
  | VBool b => Some (if b then f64_one else 0, [])
  | VInt z => if ((z <=? max_safe) && (- max_safe <=? z))%Z then Some (f64_of_Z z, []) else None
  | VF32 b => Some (f64_of_f32 b, [])
  | VF64 b => Some (b, [])
  | VStr s => Some (0, s)
  end.

Definition mkpt (t k : bytes) (vt : N * bytes) : point :=
  {| p_type := t; p_key := k; p_value := fst vt; p_text := snd vt; p_tomb := 0 |}.
Definition tombpt (t k : bytes) : point :=
  {| p_type := t; p_key := k; p_value := 0; p_text := []; p_tomb := 1 |}.

(* ------------------------------------------------------------------ *)
(* Encode                                                               *)
(* ------------------------------------------------------------------ *)
Fixpoint enc_list (t : bytes) (i : N) (l : list pval) : option (list point) :=
  match l with
  | [] => Some []
  | v :: l' => match enc_pval v, enc_list t (i + 1) l' with
               | Some vt, Some r => Some (mkpt t (itoa i) vt :: r)
               | _, _ => None
               end
  end.

Fixpoint enc_map (t : bytes) (m : list (bytes * pval)) : option (list point) :=
  match m with
  | [] => Some []
  | (k, v) :: m' => match enc_pval v, enc_map t m' with
                    | Some vt, Some r => Some (mkpt t k vt :: r)
                    | _, _ => None
                    end
  end.

Fixpoint enc_struct (t : bytes) (fs : list (bytes * prim)) (l : list pval) : option (list point) :=
  match fs, l with
  | (k, _) :: fs', v :: l' => match enc_pval v, enc_struct t fs' l' with
                              | Some vt, Some r => Some (mkpt t k vt :: r)
                              | _, _ => None
                              end
  | _, _ => Some []
  end.

(* appendPointsFromValue; None = error *)
Definition enc_field (t : bytes) (k : kind) (v : fval) : option (list point) :=
  match k, v with
  | KScalar _, FScalar x => option_map (fun vt => [mkpt t [] vt]) (enc_pval x)
  | KPtr _, FPtr None => Some [tombpt t []]
  | KPtr _, FPtr (Some x) => option_map (fun vt => [mkpt t [] vt]) (enc_pval x)
  | KSlice _, FList l | KArray _ _, FList l =>
      if (max_size <? length l)%nat then None else enc_list t 0 l
  | KMap _, FMap m => if (max_size <? length m)%nat then None else enc_map t m
  | KStruct fs, FStruct l => enc_struct t fs l
  | KPtrStruct fs, FPtrStruct None => Some (map (fun kp => tombpt t (fst kp)) fs)
  | KPtrStruct fs, FPtrStruct (Some l) => enc_struct t fs l
  | _, _ => None
  end.

(* points and edge points, in field order; Encode stops at the first error *)
Fixpoint enc_fields (ty : cfgty) (vs : list fval) : option (list point * list point) :=
  match ty, vs with
  | f :: ty', v :: vs' =>
      match enc_field (f_type f) (f_kind f) v with
      | None => None
      | Some ps => match enc_fields ty' vs' with
                   | None => None
                   | Some (P, E) => if f_edge f then Some (P, ps ++ E) else Some (ps ++ P, E)
                   end
      end
  | _, _ => Some ([], [])
  end.

(* the NodeEdge produced by Encode: id, parent, points, edge points *)
Record node := { n_id : bytes; n_parent : bytes; n_points : list point; n_edge : list point }.

Definition encode (ty : cfgty) (c : cfg) : outcome node :=
  match enc_fields ty (c_vals c) with
  | Some (P, E) => Ok {| n_id := c_id c; n_parent := c_parent c; n_points := P; n_edge := E |}
  | None => Err {| n_id := c_id c; n_parent := c_parent c; n_points := []; n_edge := [] |}
  end.

(* ------------------------------------------------------------------ *)
(* Decode                                                               *)
(* ------------------------------------------------------------------ *)
Definition grp (t : bytes) (pts : list point) : list point :=
  filter (fun p => bytes_eqb (p_type p) t) pts.

Definition key_bad (p : point) : bool :=
  match key_index (p_key p) with Some _ => false | None => true end.

(* KeyMaxInt: the largest index of a live point, -1 if none *)
Definition key_max (g : list point) : Z :=
  fold_left (fun m p => match key_index (p_key p) with
                        | Some i => if live p && (m <? Z.of_N i)%Z then Z.of_N i else m
                        | None => m
                        end) g (-1)%Z.

(* the index SetValue uses (Atoi with the error ignored) *)
Definition idx_of (p : point) : N :=
  match key_index (p_key p) with Some i => i | None => 0 end.

Fixpoint set_nth {A} (i : nat) (x : A) (l : list A) : list A :=
  match l, i with
  | [], _ => []
  | _ :: t, O => x :: t
  | h :: t, S j => h :: set_nth j x t
  end.

Definition len {A} (l : list A) : N := N.of_nat (length l).

Inductive loopres :=
| LOk (l : list pval) (dels : list N)
| LErr (l : list pval)
| LPanic.

(* the "Set array / slice values" loop; [n] is v.Len() (the loop does not change
   it); reflect's Index panics when out of range *)
Fixpoint list_loop (pr : prim) (n : N) (g : list point) (l : list pval) (dels : list N) : loopres :=
  match g with
  | [] => LOk l dels
  | p :: g' =>
      let i := idx_of p in
      if live p then
        if i <? n then
          match set_prim pr p with
          | Some v => list_loop pr n g' (set_nth (N.to_nat i) v l) dels
          | None => LErr l
          end
        else LPanic
      else if i <? n then list_loop pr n g' (set_nth (N.to_nat i) (zero_prim pr) l) (i :: dels)
      else list_loop pr n g' l (i :: dels)
  end.

(* trailing elements deleted in this call are cut off *)
Fixpoint trim_len (dels : list N) (n : nat) : nat :=
  match n with
  | O => O
  | S m => if existsb (N.eqb (N.of_nat m)) dels then trim_len dels m else n
  end.

Definition set_list (arr : option nat) (pr : prim) (g : list point) (l : list pval) : outcome (list pval) :=
  if existsb key_bad g then Err l
  else let km := key_max g in
  if (Z.of_nat max_size <? km)%Z then Err l
  else match arr with
  | Some n =>
      if (Z.of_nat n - 1 <? km)%Z then Err l
      else match list_loop pr (len l) g l [] with
           | LOk l' _ => Ok l'
           | LErr l' => Err l'
           | LPanic => Panic
           end
  | None =>
      let l1 := if (Z.of_nat (length l) - 1 <? km)%Z
                then l ++ repeat (zero_prim pr) (Z.to_nat (km + 1) - length l) else l in
      match list_loop pr (len l1) g l1 [] with
      | LOk l' dels => Ok (firstn (trim_len dels (length l')) l')
      | LErr l' => Err l'
      | LPanic => Panic
      end
  end.

(* lexicographic order on byte strings (Go's string <) *)
Fixpoint bytes_ltb (a b : bytes) : bool :=
  match a, b with
  | [], [] => false
  | [], _ :: _ => true
  | _ :: _, [] => false
  | x :: a', y :: b' => if x <? y then true else if y <? x then false else bytes_ltb a' b'
  end.

Fixpoint m_insert (k : bytes) (v : pval) (m : list (bytes * pval)) : list (bytes * pval) :=
  match m with
  | [] => [(k, v)]
  | (k', v') :: m' =>
      if bytes_eqb k k' then (k, v) :: m'
      else if bytes_ltb k k' then (k, v) :: m
      else (k', v') :: m_insert k v m'
  end.

Fixpoint m_delete (k : bytes) (m : list (bytes * pval)) : list (bytes * pval) :=
  match m with
  | [] => []
  | (k', v') :: m' => if bytes_eqb k k' then m' else (k', v') :: m_delete k m'
  end.

Fixpoint m_lookup (k : bytes) (m : list (bytes * pval)) : option pval :=
  match m with
  | [] => None
  | (k', v') :: m' => if bytes_eqb k k' then Some v' else m_lookup k m'
  end.

Fixpoint map_loop (pr : prim) (g : list point) (m : list (bytes * pval)) : outcome (list (bytes * pval)) :=
  match g with
  | [] => Ok m
  | p :: g' =>
      let k := norm_key (p_key p) in
      if live p then
        match set_prim pr p with
        | Some v => map_loop pr g' (m_insert k v m)
        | None => Err m
        end
      else map_loop pr g' (m_delete k m)
  end.

Definition set_map (pr : prim) (g : list point) (m : list (bytes * pval)) : outcome (list (bytes * pval)) :=
  if (max_size <? length g)%nat then Err m else map_loop pr g m.

(* values[p.Key] = p: the last point with that (un-normalised) key *)
Fixpoint find_last (k : bytes) (g : list point) : option point :=
  match g with
  | [] => None
  | p :: g' => match find_last k g' with
               | Some q => Some q
               | None => if bytes_eqb (p_key p) k then Some p else None
               end
  end.

Definition ocons {A} (x : A) (o : outcome (list A)) : outcome (list A) :=
  match o with Ok r => Ok (x :: r) | Err r => Err (x :: r) | Panic => Panic end.

Fixpoint struct_loop (fs : list (bytes * prim)) (l : list pval) (g : list point) : outcome (list pval) :=
  match fs, l with
  | (k, pr) :: fs', v :: l' =>
      match find_last k g with
      | None => ocons v (struct_loop fs' l' g)
      | Some p =>
          if live p then
            match set_prim pr p with
            | Some v' => ocons v' (struct_loop fs' l' g)
            | None => Err l
            end
          else ocons (zero_prim pr) (struct_loop fs' l' g)
      end
  | _, _ => Ok l
  end.

Definition mem_key (k : bytes) (s : list bytes) : bool := existsb (bytes_eqb k) s.

(* validFields of the pointer-to-struct special case *)
Definition valid_fields (fs : list (bytes * prim)) (g : list point) : list bytes :=
  fold_left (fun s p => if live p then (if mem_key (p_key p) s then s else p_key p :: s)
                        else filter (fun k => negb (bytes_eqb k (p_key p))) s)
            g (map fst fs).

Definition omap {A B} (f : A -> B) (o : outcome A) : outcome B :=
  match o with Ok a => Ok (f a) | Err a => Err (f a) | Panic => Panic end.

(* scalar destination: every point of the group is applied in order *)
Fixpoint scalar_loop (pr : prim) (g : list point) (v : pval) : outcome pval :=
  match g with
  | [] => Ok v
  | p :: g' =>
      if live p then
        match set_prim pr p with
        | Some v' => scalar_loop pr g' v'
        | None => Err v
        end
      else scalar_loop pr g' (zero_prim pr)
  end.

(* pointer to primitive: a tombstone makes it nil, a live point allocates *)
Fixpoint ptr_loop (pr : prim) (g : list point) (o : option pval) : outcome (option pval) :=
  match g with
  | [] => Ok o
  | p :: g' =>
      if live p then
        match set_prim pr p with
        | Some v' => ptr_loop pr g' (Some v')
        | None => Err (match o with Some _ => o | None => Some (zero_prim pr) end)
        end
      else ptr_loop pr g' None
  end.

(* GroupedPoints.SetValue for a non-empty group [g]; an ill-typed destination is an error *)
Definition set_value (k : kind) (g : list point) (v : fval) : outcome fval :=
  match k, v with
  | KScalar pr, FScalar x => omap FScalar (scalar_loop pr g x)
  | KPtr pr, FPtr o => omap FPtr (ptr_loop pr g o)
  | KSlice pr, FList l => omap FList (set_list None pr g l)
  | KArray n pr, FList l =>
      if (length l =? n)%nat then omap FList (set_list (Some n) pr g l) else Err v
  | KMap pr, FMap m => omap FMap (set_map pr g m)
  | KStruct fs, FStruct l => omap FStruct (struct_loop fs l g)
  | KPtrStruct fs, FPtrStruct o =>
      match valid_fields fs g with
      | [] => Ok (FPtrStruct None)
      | _ => let l := match o with Some l => l | None => map (fun kp => zero_prim (snd kp)) fs end in
             omap (fun r => FPtrStruct (Some r)) (struct_loop fs l g)
      end
  | _, _ => Err v
  end.

Definition dec_field (f : field) (v : fval) (P E : list point) : outcome fval :=
  match grp (f_type f) (if f_edge f then E else P) with
  | [] => Ok v
  | g => set_value (f_kind f) g v
  end.

(* errors are joined: the remaining fields are still decoded *)
Fixpoint dec_fields (ty : cfgty) (vs : list fval) (P E : list point) : outcome (list fval) :=
  match ty, vs with
  | f :: ty', v :: vs' =>
      match dec_field f v P E with
      | Panic => Panic
      | Ok v' => ocons v' (dec_fields ty' vs' P E)
      | Err v' => match dec_fields ty' vs' P E with
                  | Panic => Panic
                  | Ok r | Err r => Err (v' :: r)
                  end
      end
  | _, _ => Ok vs
  end.

Definition decode_into (ty : cfgty) (c : cfg) (n : node) : outcome cfg :=
  omap (fun vs => {| c_id := match n_id n with [] => c_id c | i => i end;
                     c_parent := match n_parent n with [] => c_parent c | i => i end;
                     c_vals := vs |})
       (dec_fields ty (c_vals c) (n_points n) (n_edge n)).

Definition decode (ty : cfgty) (n : node) : outcome cfg := decode_into ty (zero_cfg ty) n.

(* ------------------------------------------------------------------ *)
(* MergePoints / MergeEdgePoints (the struct itself is the only node)   *)
(* ------------------------------------------------------------------ *)
Definition nonempty (s : bytes) : bool := match s with [] => false | _ => true end.

Definition merge_points (ty : cfgty) (id : bytes) (pts : list point) (c : cfg) : outcome cfg :=
  if nonempty id && bytes_eqb (c_id c) id
  then decode_into ty c {| n_id := id; n_parent := []; n_points := pts; n_edge := [] |}
  else Err c.

Definition merge_edge_points (ty : cfgty) (id parent : bytes) (pts : list point) (c : cfg) : outcome cfg :=
  if nonempty id && bytes_eqb (c_id c) id && (negb (nonempty parent) || bytes_eqb (c_parent c) parent)
  then decode_into ty c {| n_id := id; n_parent := parent; n_points := []; n_edge := pts |}
  else Err c.

(* ------------------------------------------------------------------ *)
(* DiffPoints                                                           *)
(* ------------------------------------------------------------------ *)
(* Points.Add normalises a blank key; keys never collide for the types used *)
Definition addpt (t k : bytes) (vt : N * bytes) : point := mkpt t (norm_key k) vt.
Definition addtomb (t k : bytes) : point := tombpt t (norm_key k).

Fixpoint diff_list (t : bytes) (i : N) (a b : list pval) : option (list point) :=
  match b with
  | [] => Some []
  | y :: b' =>
      let changed := match a with x :: _ => negb (pval_goeq y x) | [] => true end in
      let a' := match a with _ :: a' => a' | [] => [] end in
      match (if changed then option_map (fun vt => [addpt t (itoa i) vt]) (enc_pval y) else Some []),
            diff_list t (i + 1) a' b' with
      | Some ps, Some r => Some (ps ++ r)
      | _, _ => None
      end
  end.

(* tombstones for indices hi-1 down to lo *)
Fixpoint tomb_range (t : bytes) (lo : N) (n : nat) : list point :=
  match n with
  | O => []
  | S m => addtomb t (itoa (lo + N.of_nat m)) :: tomb_range t lo m
  end.

Fixpoint diff_map_upd (t : bytes) (a b : list (bytes * pval)) : option (list point) :=
  match b with
  | [] => Some []
  | (k, y) :: b' =>
      let changed := match m_lookup k a with Some x => negb (pval_goeq y x) | None => true end in
      match (if changed then option_map (fun vt => [addpt t k vt]) (enc_pval y) else Some []),
            diff_map_upd t a b' with
      | Some ps, Some r => Some (ps ++ r)
      | _, _ => None
      end
  end.

Definition diff_map_del (t : bytes) (a b : list (bytes * pval)) : list point :=
  flat_map (fun kv => match m_lookup (fst kv) b with Some _ => [] | None => [addtomb t (fst kv)] end) a.

Fixpoint diff_struct (t : bytes) (fs : list (bytes * prim)) (a b : list pval) : option (list point) :=
  match fs, a, b with
  | (k, _) :: fs', x :: a', y :: b' =>
      match (if pval_goeq x y then Some [] else option_map (fun vt => [addpt t k vt]) (enc_pval y)),
            diff_struct t fs' a' b' with
      | Some ps, Some r => Some (ps ++ r)
      | _, _ => None
      end
  | _, _, _ => Some []
  end.

(* one `point` field; pointers in before/after are distinct allocations *)
Definition diff_field (t : bytes) (k : kind) (a b : fval) : option (list point) :=
  match k, a, b with
  | KScalar _, FScalar x, FScalar y =>
      if pval_goeq x y then Some [] else option_map (fun vt => [addpt t [] vt]) (enc_pval y)
  | KPtr _, FPtr None, FPtr None => Some []
  | KPtr _, FPtr _, FPtr None => Some [addtomb t []]
  | KPtr _, FPtr _, FPtr (Some y) => option_map (fun vt => [addpt t [] vt]) (enc_pval y)
  | KSlice _, FList x, FList y | KArray _ _, FList x, FList y =>
      if (max_size <? length y)%nat then None
      else match diff_list t 0 x y with
           | Some ps => Some (ps ++ tomb_range t (len y) (length x - length y))
           | None => None
           end
  | KMap _, FMap x, FMap y =>
      if (max_size <? length y)%nat then None
      else match diff_map_upd t x y with
           | Some ps => Some (ps ++ diff_map_del t x y)
           | None => None
           end
  | KStruct fs, FStruct x, FStruct y => diff_struct t fs x y
  | KPtrStruct fs, FPtrStruct None, FPtrStruct None => Some []
  | KPtrStruct fs, FPtrStruct (Some _), FPtrStruct None => Some (map (fun kp => addtomb t (fst kp)) fs)
  | KPtrStruct fs, FPtrStruct None, FPtrStruct (Some y) => enc_struct t fs y
  | KPtrStruct fs, FPtrStruct (Some x), FPtrStruct (Some y) => diff_struct t fs x y
  | _, _, _ => None
  end.

Fixpoint diff_fields (ty : cfgty) (a b : list fval) : option (list point) :=
  match ty, a, b with
  | f :: ty', x :: a', y :: b' =>
      if f_edge f then diff_fields ty' a' b'
      else match diff_field (f_type f) (f_kind f) x y, diff_fields ty' a' b' with
           | Some ps, Some r => Some (ps ++ r)
           | _, _ => None
           end
  | _, _, _ => Some []
  end.

Definition diff (ty : cfgty) (a b : cfg) : outcome (list point) :=
  match diff_fields ty (c_vals a) (c_vals b) with
  | Some ps => Ok ps
  | None => Err []
  end.

(* ------------------------------------------------------------------ *)
(* well-formedness (the quantifier of C10), executable                   *)
(* ------------------------------------------------------------------ *)
Definition width_ok (w : N) : bool := (w =? 8) || (w =? 16) || (w =? 32) || (w =? 64).

Definition has_prim (pr : prim) (v : pval) : bool :=
  match pr, v with
  | PBool, VBool _ => true
  | PInt w, VInt z => int_fits w z
  | PUint w, VInt z => uint_fits w z
  | PF32, VF32 b => b <? 2^32
  | PF64, VF64 b => b <? 2^64
  | PStr, VStr s => true
  | _, _ => false
  end.

(* within the documented limits: integers within +/-(2^53-1), no NaN *)
Definition wf_prim (pr : prim) (v : pval) : bool :=
  has_prim pr v &&
  match v with
  | VInt z => ((z <=? max_safe) && (- max_safe <=? z))%Z
  | VF32 b => negb (f32_is_nan b)
  | VF64 b => negb (f64_is_nan b)
  | _ => true
  end.

(* additionally no negative zero: Go's == cannot tell it from +0, so a change
   of sign of a zero is invisible to DiffPoints *)
Definition wfz_prim (pr : prim) (v : pval) : bool :=
  wf_prim pr v &&
  match v with
  | VF32 b => negb (b =? 2^31)
  | VF64 b => negb (b =? 2^63)
  | _ => true
  end.

Fixpoint sorted_keys (m : list (bytes * pval)) : bool :=
  match m with
  | [] => true
  | (k, _) :: m' => match m' with
                    | [] => true
                    | (k', _) :: _ => bytes_ltb k k' && sorted_keys m'
                    end
  end.

Fixpoint wf_struct (wp : prim -> pval -> bool) (fs : list (bytes * prim)) (l : list pval) : bool :=
  match fs, l with
  | [], [] => true
  | (_, pr) :: fs', v :: l' => wp pr v && wf_struct wp fs' l'
  | _, _ => false
  end.

Definition wf_fval (wp : prim -> pval -> bool) (k : kind) (v : fval) : bool :=
  match k, v with
  | KScalar pr, FScalar x => wp pr x
  | KPtr pr, FPtr None => true
  | KPtr pr, FPtr (Some x) => wp pr x
  | KSlice pr, FList l => (length l <=? max_size)%nat && forallb (wp pr) l
  | KArray n pr, FList l => (length l =? n)%nat && forallb (wp pr) l
  | KMap pr, FMap m =>
      (length m <=? max_size)%nat && sorted_keys m
      && forallb (fun kv => nonempty (fst kv) && wp pr (snd kv)) m
  | KStruct fs, FStruct l => wf_struct wp fs l
  | KPtrStruct fs, FPtrStruct None => true
  | KPtrStruct fs, FPtrStruct (Some l) => wf_struct wp fs l
  | _, _ => false
  end.

Fixpoint wf_vals (wp : prim -> pval -> bool) (ty : cfgty) (vs : list fval) : bool :=
  match ty, vs with
  | [], [] => true
  | f :: ty', v :: vs' => wf_fval wp (f_kind f) v && wf_vals wp ty' vs'
  | _, _ => false
  end.

Definition wfb (ty : cfgty) (c : cfg) : bool := wf_vals wf_prim ty (c_vals c).
Definition wfzb (ty : cfgty) (c : cfg) : bool := wf_vals wfz_prim ty (c_vals c).

Fixpoint distinct (l : list bytes) : bool :=
  match l with
  | [] => true
  | k :: l' => negb (mem_key k l') && distinct l'
  end.

Definition prim_ok (pr : prim) : bool :=
  match pr with PInt w | PUint w => width_ok w | _ => true end.

Definition kind_ok (k : kind) : bool :=
  match k with
  | KScalar pr | KPtr pr | KSlice pr | KMap pr => prim_ok pr
  | KArray n pr => prim_ok pr && (n <=? max_size)%nat
  | KStruct fs | KPtrStruct fs =>
      forallb (fun kp => nonempty (fst kp) && prim_ok (snd kp)) fs && distinct (map fst fs)
      && negb (length fs =? 0)%nat
  end.

(* point types are non-empty and no two point fields (resp. edge fields) share one *)
Definition wf_ty (ty : cfgty) : bool :=
  forallb (fun f => nonempty (f_type f) && kind_ok (f_kind f)) ty
  && distinct (map f_type (filter (fun f => negb (f_edge f)) ty))
  && distinct (map f_type (filter f_edge ty)).

(* points whose type the configuration does not declare, in the namespace they arrive in *)
Definition declared (ty : cfgty) (edge : bool) (p : point) : bool :=
  existsb (fun f => Bool.eqb (f_edge f) edge && bytes_eqb (f_type f) (p_type p)) ty.

Definition strip_undeclared (ty : cfgty) (n : node) : node :=
  {| n_id := n_id n; n_parent := n_parent n;
     n_points := filter (declared ty false) (n_points n);
     n_edge := filter (declared ty true) (n_edge n) |}.

(* ------------------------------------------------------------------ *)
(* child lists: `child:"type"` fields are slices of configuration        *)
(* structs, filled by Decode from the children of the node               *)
(* ------------------------------------------------------------------ *)
Inductive tty := TTy (fields : cfgty) (kids : list (bytes * tty)).     (* child tag (node type), element type *)
Inductive tcfg := TCfg (c : cfg) (kids : list (list tcfg)).           (* one list per child field *)
Inductive tnode := TNode (ntype : bytes) (n : node) (kids : list tnode). (* NodeEdgeChildren *)

Definition tty_fields (t : tty) : cfgty := match t with TTy f _ => f end.
Definition tty_kids (t : tty) : list (bytes * tty) := match t with TTy _ k => k end.
Definition tc_cfg (v : tcfg) : cfg := match v with TCfg c _ => c end.
Definition tc_kids (v : tcfg) : list (list tcfg) := match v with TCfg _ k => k end.
Definition tn_type (t : tnode) : bytes := match t with TNode ty _ _ => ty end.
Definition tn_node (t : tnode) : node := match t with TNode _ n _ => n end.
Definition tn_kids (t : tnode) : list tnode := match t with TNode _ _ k => k end.

Definition zero_tcfg (ty : tty) : tcfg := TCfg (zero_cfg (tty_fields ty)) (map (fun _ => []) (tty_kids ty)).

(* a panic anywhere is a panic; an error anywhere is an error (errors.Join), the values are kept *)
Definition ocons2 {A} (o : outcome A) (acc : outcome (list A)) : outcome (list A) :=
  match o, acc with
  | Panic, _ | _, Panic => Panic
  | Ok a, Ok r => Ok (a :: r)
  | Ok a, Err r | Err a, Ok r | Err a, Err r => Err (a :: r)
  end.
Definition oseq {A} (os : list (outcome A)) : outcome (list A) := fold_right ocons2 (Ok []) os.

(* one child field: the children whose node type is the field's tag, each decoded
   into a fresh element; no such child: the field is left alone *)
Definition dec_kid_field (subs : list (bytes * (tty -> tcfg -> outcome tcfg)))
           (kt : bytes * tty) (prior : list tcfg) : outcome (list tcfg) :=
  match filter (fun sb => bytes_eqb (fst sb) (fst kt)) subs with
  | [] => Ok prior
  | g => oseq (map (fun sb => snd sb (snd kt) (zero_tcfg (snd kt))) g)
  end.

Fixpoint dec_kid_fields (subs : list (bytes * (tty -> tcfg -> outcome tcfg)))
         (kts : list (bytes * tty)) (ks : list (list tcfg)) : list (outcome (list tcfg)) :=
  match kts, ks with
  | kt :: kts', k :: ks' => dec_kid_field subs kt k :: dec_kid_fields subs kts' ks'
  | _, _ => []
  end.

Definition tcombine (r0 : outcome cfg) (rk : outcome (list (list tcfg))) : outcome tcfg :=
  match r0, rk with
  | Panic, _ | _, Panic => Panic
  | Ok c, Ok ks => Ok (TCfg c ks)
  | Ok c, Err ks | Err c, Ok ks | Err c, Err ks => Err (TCfg c ks)
  end.

(* Decode(NodeEdgeChildren, &struct) *)
Fixpoint decode_tree (tn : tnode) (ty : tty) (prior : tcfg) : outcome tcfg :=
  match tn with
  | TNode _ n kids =>
      let subs := map (fun k => (tn_type k, decode_tree k)) kids in
      tcombine (decode_into (tty_fields ty) (tc_cfg prior) n)
               (oseq (dec_kid_fields subs (tty_kids ty) (tc_kids prior)))
  end.

(* Encode of every struct of a tree, assembled into NodeEdgeChildren (what a
   client store holds for a node and its descendants); None = an Encode error *)
Definition opt_seq {A} (l : list (option A)) : option (list A) :=
  fold_right (fun o acc => match o, acc with Some a, Some r => Some (a :: r) | _, _ => None end) (Some []) l.

Fixpoint encode_tree (nt : bytes) (ty : tty) (v : tcfg) : option tnode :=
  match ty, v with
  | TTy fs kts, TCfg c ks =>
      match encode fs c with
      | Ok n =>
          let enc_field_kids :=
            (fix go (kts : list (bytes * tty)) (ks : list (list tcfg)) : option (list tnode) :=
               match kts, ks with
               | (t, cty) :: kts', k :: ks' =>
                   match opt_seq (map (fun ch => encode_tree t cty ch) k), go kts' ks' with
                   | Some a, Some r => Some (a ++ r)
                   | _, _ => None
                   end
               | _, _ => Some []
               end) in
          match enc_field_kids kts ks with
          | Some kids => Some (TNode nt n kids)
          | None => None
          end
      | _ => None
      end
  end.

(* MergePoints / MergeEdgePoints on a tree: FindNodeInStruct looks for the first
   struct (the node itself, then its children field by field, depth first)
   accepted by [test]; [upd] decodes the points into it.  None = not found.
   (Go walks the child fields in map order; with node ids unique in the tree the
   order does not matter.) *)
Definition first_some {A} (l : list (option A)) : option (nat * A) :=
  (fix go (i : nat) (l : list (option A)) : option (nat * A) :=
     match l with
     | [] => None
     | Some a :: _ => Some (i, a)
     | None :: l' => go (S i) l'
     end) 0%nat l.

Definition owrap {A B} (f : A -> B) (o : outcome A) : outcome B := omap f o.

Fixpoint merge_tree (v : tcfg) (ty : tty) (test : cfg -> bool) (upd : cfgty -> cfg -> outcome cfg)
  : option (outcome tcfg) :=
  match v with
  | TCfg c ks =>
      if test c then Some (owrap (fun c' => TCfg c' ks) (upd (tty_fields ty) c))
      else
        (* per child field: the result of searching each element *)
        let subs := map (map (fun ch => merge_tree ch)) ks in
        (fix fields (kts : list (bytes * tty)) (ks : list (list tcfg))
                    (subs : list (list (tty -> (cfg -> bool) -> (cfgty -> cfg -> outcome cfg) -> option (outcome tcfg))))
                    (before : list (list tcfg)) : option (outcome tcfg) :=
           match kts, ks, subs with
           | kt :: kts', k :: ks', sb :: subs' =>
               match first_some (map (fun f => f (snd kt) test upd) sb) with
               | Some (i, r) =>
                   Some (owrap (fun ch' => TCfg c (rev before ++ (firstn i k ++ ch' :: skipn (S i) k) :: ks')) r)
               | None => fields kts' ks' subs' (k :: before)
               end
           | _, _, _ => None
           end) (tty_kids ty) ks subs []
  end.

Definition merge_points_tree (ty : tty) (id : bytes) (pts : list point) (v : tcfg) : outcome tcfg :=
  if nonempty id then
    match merge_tree v ty (fun c => bytes_eqb (c_id c) id)
                     (fun fs c => decode_into fs c {| n_id := id; n_parent := []; n_points := pts; n_edge := [] |}) with
    | Some r => r
    | None => Err v
    end
  else Err v.

Definition merge_edge_points_tree (ty : tty) (id parent : bytes) (pts : list point) (v : tcfg) : outcome tcfg :=
  if nonempty id then
    match merge_tree v ty (fun c => bytes_eqb (c_id c) id && (negb (nonempty parent) || bytes_eqb (c_parent c) parent))
                     (fun fs c => decode_into fs c {| n_id := id; n_parent := parent; n_points := []; n_edge := pts |}) with
    | Some r => r
    | None => Err v
    end
  else Err v.

(* well-formedness of trees *)
Fixpoint wf_tty (ty : tty) : bool :=
  match ty with
  | TTy fs kts =>
      wf_ty fs && distinct (map fst kts)
      && forallb (fun kt => nonempty (fst kt) && wf_tty (snd kt)) kts
  end.

Fixpoint wf_tcfg (ty : tty) (v : tcfg) : bool :=
  match ty, v with
  | TTy fs kts, TCfg c ks =>
      wfb fs c &&
      (fix go (kts : list (bytes * tty)) (ks : list (list tcfg)) : bool :=
         match kts, ks with
         | [], [] => true
         | kt :: kts', k :: ks' => forallb (fun ch => wf_tcfg (snd kt) ch) k && go kts' ks'
         | _, _ => false
         end) kts ks
  end.

Fixpoint tcfg_eqb (a b : tcfg) : bool :=
  match a, b with
  | TCfg c ks, TCfg c' ks' =>
      cfg_eqb c c' &&
      (fix go2 (x y : list (list tcfg)) : bool :=
         match x, y with
         | [], [] => true
         | k :: x', k' :: y' =>
             (fix go1 (p q : list tcfg) : bool :=
                match p, q with
                | [], [] => true
                | u :: p', w :: q' => tcfg_eqb u w && go1 p' q'
                | _, _ => false
                end) k k' && go2 x' y'
         | _, _ => false
         end) ks ks'
  end.

(* the children whose type no child field declares, and the undeclared points, removed (recursively) *)
Fixpoint kid_type (t : bytes) (kts : list (bytes * tty)) : option tty :=
  match kts with
  | [] => None
  | (t', cty) :: kts' => if bytes_eqb t' t then Some cty else kid_type t kts'
  end.

Fixpoint strip_tree (tn : tnode) (ty : tty) : tnode :=
  match tn with
  | TNode t n kids =>
      let subs := map (fun k => (tn_type k, strip_tree k)) kids in
      TNode t (strip_undeclared (tty_fields ty) n)
            (flat_map (fun sb => match kid_type (fst sb) (tty_kids ty) with
                                 | Some cty => [snd sb cty]
                                 | None => []
                                 end) subs)
  end.

(* ------------------------------------------------------------------ *)
(* specification side of the case checkers                              *)
(* ------------------------------------------------------------------ *)
(* what diff followed by merge must produce: the point fields of [b], everything else of [a] *)
Fixpoint take_points (ty : cfgty) (a b : list fval) : list fval :=
  match ty, a, b with
  | f :: ty', x :: a', y :: b' => (if f_edge f then x else y) :: take_points ty' a' b'
  | _, _, _ => a
  end.
Definition expected_merge (ty : cfgty) (a b : cfg) : cfg :=
  {| c_id := c_id a; c_parent := c_parent a; c_vals := take_points ty (c_vals a) (c_vals b) |}.

Definition outcome_eqb {A} (eqb : A -> A -> bool) (a b : outcome A) : bool :=
  match a, b with
  | Ok x, Ok y => eqb x y
  | Err x, Err y => eqb x y
  | Panic, Panic => true
  | _, _ => false
  end.

(* only the class of the outcome *)
Definition class_eqb {A B} (a : outcome A) (b : outcome B) : bool :=
  match a, b with
  | Ok _, Ok _ | Err _, Err _ | Panic, Panic => true
  | _, _ => false
  end.

Definition node_eqb (a b : node) : bool :=
  bytes_eqb (n_id a) (n_id b) && bytes_eqb (n_parent a) (n_parent b)
  && list_eqb point_eqb (n_points a) (n_points b) && list_eqb point_eqb (n_edge a) (n_edge b).

Definition is_ok_eq {A} (eqb : A -> A -> bool) (o : outcome A) (x : A) : bool :=
  match o with Ok y => eqb y x | _ => false end.

Definition is_panic {A} (o : outcome A) : bool := match o with Panic => true | _ => false end.

(* ---------- C10 cases ---------- *)
Inductive case10 :=
| RoundTrip (strict : bool)                (* the generator claims a well-formed value *)
            (ty : cfgty) (v : cfg)
            (enc : outcome node)              (* Encode(v), map runs sorted by key *)
            (din : node)                      (* what was handed to Decode: enc with map runs shuffled *)
            (dout : option (outcome cfg))     (* Decode(din, &zero) when Encode succeeded *)
| DiffMerge (strict : bool) (ty : cfgty) (a b : cfg)
            (a' : option (outcome cfg))       (* Decode(Encode(a)) *)
            (d : outcome (list point))        (* DiffPoints(a, b), map runs canonical *)
            (min : list point)                (* what was handed to MergePoints *)
            (mout : option (outcome cfg))     (* MergePoints(id a, min, &a') *)
| TreeTrip (strict : bool) (ty : tty) (v : tcfg)
           (tn : tnode)                      (* Encode of every struct of v, assembled into NodeEdgeChildren *)
           (dout : outcome tcfg).            (* Decode(tn, &zero) *)

Definition check_case10 (c : case10) : N :=
  match c with
  | RoundTrip strict ty v enc din dout =>
      let menc := encode ty v in
      let corr :=
        (match menc, enc with
         | Ok x, Ok y => node_eqb x y
         | Err _, Err _ => true
         | _, _ => false
         end)
        && match dout with
           | Some o => outcome_eqb cfg_eqb (decode ty din) o
           | None => true
           end in
      let spec :=
        if wf_ty ty && wfb ty v
        then class_eqb enc (Ok tt) && match dout with Some o => is_ok_eq cfg_eqb o v | None => false end
        else negb strict && match dout with Some o => negb (is_panic o) | None => true end in
      code corr spec
  | DiffMerge strict ty a b a' d min mout =>
      let corr :=
        (match diff ty a b, d with
         | Ok x, Ok y => list_eqb point_eqb x y
         | Err _, Err _ => true
         | _, _ => false
         end)
        && match a', mout with
           | Some (Ok p), Some o => outcome_eqb cfg_eqb (merge_points ty (c_id a) min p) o
           | _, _ => true
           end in
      let spec :=
        if wf_ty ty && wfzb ty a && wfzb ty b && nonempty (c_id a)
        then match a', mout with
             | Some pa, Some o => is_ok_eq cfg_eqb pa a && class_eqb d (Ok tt)
                                  && is_ok_eq cfg_eqb o (expected_merge ty a b)
             | _, _ => false
             end
        else negb strict && match mout with Some o => negb (is_panic o) | None => true end in
      code corr spec
  | TreeTrip strict ty v tn dout =>
      let corr := outcome_eqb tcfg_eqb (decode_tree tn ty (zero_tcfg ty)) dout in
      let spec :=
        if wf_tty ty && wf_tcfg ty v then is_ok_eq tcfg_eqb dout v
        else negb strict && negb (is_panic dout) in
      code corr spec
  end.

(* ---------- C11 cases ---------- *)
(* op 0: Decode(node, &prior); 1: MergePoints(id, points, &prior); 2: MergeEdgePoints(id, parent, edge, &prior) *)
Record case11 := {
  k_ty : cfgty; k_prior : cfg; k_op : N; k_node : node;
  k_out : outcome cfg;                 (* what the implementation did *)
  k_out2 : outcome cfg                 (* the same call with the points of undeclared types removed *)
}.

Definition run_op (ty : cfgty) (op : N) (prior : cfg) (n : node) : outcome cfg :=
  if op =? 0 then decode_into ty prior n
  else if op =? 1 then merge_points ty (n_id n) (n_points n) prior
  else merge_edge_points ty (n_id n) (n_parent n) (n_edge n) prior.

Definition check_case11 (c : case11) : N :=
  let corr := outcome_eqb cfg_eqb (run_op (k_ty c) (k_op c) (k_prior c) (k_node c)) (k_out c)
              && outcome_eqb cfg_eqb (run_op (k_ty c) (k_op c) (k_prior c) (strip_undeclared (k_ty c) (k_node c)))
                                     (k_out2 c) in
  let spec := negb (is_panic (k_out c)) && negb (is_panic (k_out2 c))
              && outcome_eqb cfg_eqb (k_out c) (k_out2 c) in
  code corr spec.

(* the same on trees: op 0 Decode(tn, &prior); 1 / 2: MergePoints / MergeEdgePoints with the id,
   parent and points of tn's node (tn has no children then) *)
Record case11t := {
  kt_ty : tty; kt_prior : tcfg; kt_op : N; kt_node : tnode;
  kt_out : outcome tcfg;
  kt_out2 : outcome tcfg               (* op 0: the same call on strip_tree; otherwise the same call *)
}.

Definition run_op_tree (ty : tty) (op : N) (prior : tcfg) (tn : tnode) : outcome tcfg :=
  let n := tn_node tn in
  if op =? 0 then decode_tree tn ty prior
  else if op =? 1 then merge_points_tree ty (n_id n) (n_points n) prior
  else merge_edge_points_tree ty (n_id n) (n_parent n) (n_edge n) prior.

Definition check_case11t (c : case11t) : N :=
  let tn2 := if kt_op c =? 0 then strip_tree (kt_node c) (kt_ty c) else kt_node c in
  let corr := outcome_eqb tcfg_eqb (run_op_tree (kt_ty c) (kt_op c) (kt_prior c) (kt_node c)) (kt_out c)
              && outcome_eqb tcfg_eqb (run_op_tree (kt_ty c) (kt_op c) (kt_prior c) tn2) (kt_out2 c) in
  let spec := negb (is_panic (kt_out c)) && negb (is_panic (kt_out2 c))
              && outcome_eqb tcfg_eqb (kt_out c) (kt_out2 c) in
  code corr spec.

(* ------------------------------------------------------------------ *)
(* decoding the cases handed over by the harness                        *)
(* ------------------------------------------------------------------ *)
(* a float64 bit pattern arrives as 8 big-endian bytes *)
Definition be_to_N (l : list N) : N := fold_left (fun a b => a * 256 + b) l 0.

Definition prim_of_val (v : val) : option prim :=
  match v with
  | VL [VN 0] => Some PBool
  | VL [VN 1; VN w] => Some (PInt w)
  | VL [VN 2; VN w] => Some (PUint w)
  | VL [VN 3] => Some PF32
  | VL [VN 4] => Some PF64
  | VL [VN 5] => Some PStr
  | _ => None
  end.

Definition kp_of_val (v : val) : option (bytes * prim) :=
  match v with
  | VL [VB k; p] => p <- prim_of_val p ;; Some (k, p)
  | _ => None
  end.

Definition kind_of_val (v : val) : option kind :=
  match v with
  | VL [VN 0; p] => p <- prim_of_val p ;; Some (KScalar p)
  | VL [VN 1; p] => p <- prim_of_val p ;; Some (KPtr p)
  | VL [VN 2; p] => p <- prim_of_val p ;; Some (KSlice p)
  | VL [VN 3; VN n; p] => p <- prim_of_val p ;; Some (KArray (N.to_nat n) p)
  | VL [VN 4; p] => p <- prim_of_val p ;; Some (KMap p)
  | VL [VN 5; fs] => fs <- get_list kp_of_val fs ;; Some (KStruct fs)
  | VL [VN 6; fs] => fs <- get_list kp_of_val fs ;; Some (KPtrStruct fs)
  | _ => None
  end.

Definition field_of_val (v : val) : option field :=
  match v with
  | VL [e; VB t; k] => e <- get_bool e ;; k <- kind_of_val k ;;
                       Some {| f_edge := e; f_type := t; f_kind := k |}
  | _ => None
  end.

Definition pval_of_val (v : val) : option pval :=
  match v with
  | VL [VN 0; b] => b <- get_bool b ;; Some (VBool b)
  | VL [VN 1; z] => z <- get_z z ;; Some (VInt z)
  | VL [VN 2; VN b] => Some (VF32 b)
  | VL [VN 3; VB b] => Some (VF64 (be_to_N b))
  | VL [VN 4; VB s] => Some (VStr s)
  | _ => None
  end.

Definition kv_of_val (v : val) : option (bytes * pval) :=
  match v with
  | VL [VB k; x] => x <- pval_of_val x ;; Some (k, x)
  | _ => None
  end.

Definition fval_of_val (v : val) : option fval :=
  match v with
  | VL [VN 0; x] => x <- pval_of_val x ;; Some (FScalar x)
  | VL [VN 1; o] => o <- get_opt pval_of_val o ;; Some (FPtr o)
  | VL [VN 2; l] => l <- get_list pval_of_val l ;; Some (FList l)
  | VL [VN 3; m] => m <- get_list kv_of_val m ;; Some (FMap m)
  | VL [VN 4; l] => l <- get_list pval_of_val l ;; Some (FStruct l)
  | VL [VN 5; o] => o <- get_opt (get_list pval_of_val) o ;; Some (FPtrStruct o)
  | _ => None
  end.

Definition cfg_of_val (v : val) : option cfg :=
  match v with
  | VL [VB i; VB p; vs] => vs <- get_list fval_of_val vs ;;
                           Some {| c_id := i; c_parent := p; c_vals := vs |}
  | _ => None
  end.

Definition point_of_val (v : val) : option point :=
  match v with
  | VL [VB t; VB k; VB x; VB s; z] =>
      z <- get_z z ;; Some {| p_type := t; p_key := k; p_value := be_to_N x; p_text := s; p_tomb := z |}
  | _ => None
  end.

Definition node_of_val (v : val) : option node :=
  match v with
  | VL [VB i; VB p; P; E] =>
      P <- get_list point_of_val P ;; E <- get_list point_of_val E ;;
      Some {| n_id := i; n_parent := p; n_points := P; n_edge := E |}
  | _ => None
  end.

Definition outcome_of_val {A} (f : val -> option A) (v : val) : option (outcome A) :=
  match v with
  | VL [VN 0; x] => x <- f x ;; Some (Ok x)
  | VL [VN 1; x] => x <- f x ;; Some (Err x)
  | VL [VN 2] => Some Panic
  | _ => None
  end.

(* map_opt with the function outside the fixpoint, so that it can be used in nested recursion *)
Definition map_opt2 {A B} (f : A -> option B) : list A -> option (list B) :=
  fix go l := match l with
              | [] => Some []
              | a :: l' => match f a, go l' with Some b, Some bs => Some (b :: bs) | _, _ => None end
              end.

Fixpoint tty_of_val (v : val) : option tty :=
  match v with
  | VL [fs; VL ks] =>
      fs <- get_list field_of_val fs ;;
      ks <- map_opt2 (fun kv => match kv with
                                | VL [VB t; sub] => sub <- tty_of_val sub ;; Some (t, sub)
                                | _ => None
                                end) ks ;;
      Some (TTy fs ks)
  | _ => None
  end.

Fixpoint tcfg_of_val (v : val) : option tcfg :=
  match v with
  | VL [c; VL ks] =>
      c <- cfg_of_val c ;;
      ks <- map_opt2 (fun k => match k with
                               | VL l => map_opt2 tcfg_of_val l
                               | _ => None
                               end) ks ;;
      Some (TCfg c ks)
  | _ => None
  end.

Fixpoint tnode_of_val (v : val) : option tnode :=
  match v with
  | VL [VB t; n; VL ks] =>
      n <- node_of_val n ;;
      ks <- map_opt2 tnode_of_val ks ;;
      Some (TNode t n ks)
  | _ => None
  end.

Definition case10_of_val (v : val) : option case10 :=
  match v with
  | VL [VN 0; st; ty; c; enc; din; dout] =>
      st <- get_bool st ;; ty <- get_list field_of_val ty ;; c <- cfg_of_val c ;;
      enc <- outcome_of_val node_of_val enc ;; din <- node_of_val din ;;
      dout <- get_opt (outcome_of_val cfg_of_val) dout ;;
      Some (RoundTrip st ty c enc din dout)
  | VL [VN 1; st; ty; a; b; a'; d; min; mout] =>
      st <- get_bool st ;; ty <- get_list field_of_val ty ;; a <- cfg_of_val a ;; b <- cfg_of_val b ;;
      a' <- get_opt (outcome_of_val cfg_of_val) a' ;;
      d <- outcome_of_val (get_list point_of_val) d ;;
      min <- get_list point_of_val min ;;
      mout <- get_opt (outcome_of_val cfg_of_val) mout ;;
      Some (DiffMerge st ty a b a' d min mout)
  | VL [VN 2; st; ty; c; tn; dout] =>
      st <- get_bool st ;; ty <- tty_of_val ty ;; c <- tcfg_of_val c ;; tn <- tnode_of_val tn ;;
      dout <- outcome_of_val tcfg_of_val dout ;;
      Some (TreeTrip st ty c tn dout)
  | _ => None
  end.

Definition case11_of_val (v : val) : option case11 :=
  match v with
  | VL [ty; prior; VN op; n; out; out2] =>
      ty <- get_list field_of_val ty ;; prior <- cfg_of_val prior ;; n <- node_of_val n ;;
      out <- outcome_of_val cfg_of_val out ;; out2 <- outcome_of_val cfg_of_val out2 ;;
      Some {| k_ty := ty; k_prior := prior; k_op := op; k_node := n; k_out := out; k_out2 := out2 |}
  | _ => None
  end.

Definition case11t_of_val (v : val) : option case11t :=
  match v with
  | VL [VN 9; ty; prior; VN op; tn; out; out2] =>
      ty <- tty_of_val ty ;; prior <- tcfg_of_val prior ;; tn <- tnode_of_val tn ;;
      out <- outcome_of_val tcfg_of_val out ;; out2 <- outcome_of_val tcfg_of_val out2 ;;
      Some {| kt_ty := ty; kt_prior := prior; kt_op := op; kt_node := tn; kt_out := out; kt_out2 := out2 |}
  | _ => None
  end.

Definition check_val10 : val -> N := check_with case10_of_val check_case10.
Definition check_val11 (v : val) : N :=
  match v with
  | VL (VN 9 :: _) => check_with case11t_of_val check_case11t v
  | _ => check_with case11_of_val check_case11 v
  end.
