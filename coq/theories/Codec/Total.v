(* C11: decoding and merging never reach [Panic]; points of undeclared types
   are ignored.  Theorems about Codec/Model.v. *)
From Coq Require Import ZifyN ZifyNat ZifyBool.
From Verif Require Import Base.Bytes Base.Val Codec.Model.
Local Open Scope N_scope.

(* ---------- KeyMaxInt dominates every live index ---------- *)
Definition km_step (m : Z) (p : point) : Z :=
  match key_index (p_key p) with
  | Some i => if live p && (m <? Z.of_N i)%Z then Z.of_N i else m
  | None => m
  end.

Lemma key_max_fold g : key_max g = fold_left km_step g (-1)%Z.
Proof. reflexivity. Qed.

Lemma km_step_mono m p : (m <= km_step m p)%Z.
Proof.
  unfold km_step. destruct (key_index (p_key p)) as [i|]; [|lia].
  destruct (live p); cbn; [|lia]. destruct (Z.ltb_spec m (Z.of_N i)); lia.
Qed.

Lemma km_fold_mono g : forall m, (m <= fold_left km_step g m)%Z.
Proof.
  induction g as [|p g IH]; intros m; cbn; [lia|].
  specialize (IH (km_step m p)). pose proof (km_step_mono m p). lia.
Qed.

Lemma km_fold_ge g : forall m p i,
  In p g -> live p = true -> key_index (p_key p) = Some i ->
  (Z.of_N i <= fold_left km_step g m)%Z.
Proof.
  induction g as [|q g IH]; intros m p i Hin Hl Hk; [destruct Hin|].
  cbn. destruct Hin as [->|Hin].
  - pose proof (km_fold_mono g (km_step m p)) as Hm.
    assert (Z.of_N i <= km_step m p)%Z.
    { unfold km_step. rewrite Hk, Hl. cbn. destruct (Z.ltb_spec m (Z.of_N i)); lia. }
    lia.
  - eapply IH; eauto.
Qed.

Lemma key_max_ge g p i :
  In p g -> live p = true -> key_index (p_key p) = Some i -> (Z.of_N i <= key_max g)%Z.
Proof. rewrite key_max_fold. apply km_fold_ge. Qed.

(* ---------- the slice / array loop ---------- *)
Lemma list_loop_nopanic pr n : forall g l d,
  (forall p, In p g -> live p = true -> idx_of p < n) ->
  list_loop pr n g l d <> LPanic.
Proof.
  induction g as [|p g IH]; intros l d H; cbn; [discriminate|].
  assert (Hg : forall q, In q g -> live q = true -> idx_of q < n) by (intros; apply H; [right|]; assumption).
  destruct (live p) eqn:Hl.
  - assert (Hi : idx_of p < n) by (apply H; [left; reflexivity|assumption]).
    apply N.ltb_lt in Hi. rewrite Hi.
    destruct (set_prim pr p); [apply IH; assumption|discriminate].
  - destruct (idx_of p <? n); apply IH; assumption.
Qed.

Lemma live_idx_le_max g :
  existsb key_bad g = false ->
  forall p, In p g -> live p = true -> (Z.of_N (idx_of p) <= key_max g)%Z.
Proof.
  intros Hb p Hin Hl.
  assert (Hk : key_bad p = false).
  { destruct (key_bad p) eqn:E; [|reflexivity].
    assert (existsb key_bad g = true) by (apply existsb_exists; eauto). congruence. }
  unfold key_bad in Hk. unfold idx_of.
  destruct (key_index (p_key p)) as [i|] eqn:E; [|discriminate].
  eapply key_max_ge; eauto.
Qed.

Lemma len_app_repeat {A} (l : list A) (x : A) k : len (l ++ repeat x k) = len l + N.of_nat k.
Proof. unfold len. rewrite app_length, repeat_length. lia. Qed.

Lemma set_list_nopanic arr pr g l :
  (match arr with Some n => length l = n | None => True end) ->
  set_list arr pr g l <> Panic.
Proof.
  intros Harr. unfold set_list.
  destruct (existsb key_bad g) eqn:Hb; [discriminate|].
  destruct (Z.ltb_spec (Z.of_nat max_size) (key_max g)) as [|Hmax]; [discriminate|].
  pose proof (live_idx_le_max g Hb) as Hle.
  destruct arr as [n|].
  - destruct (Z.ltb_spec (Z.of_nat n - 1) (key_max g)) as [|Hn]; [discriminate|].
    destruct (list_loop pr (len l) g l []) eqn:E; try discriminate.
    exfalso. revert E. apply list_loop_nopanic.
    intros p Hin Hl. specialize (Hle p Hin Hl). unfold len. lia.
  - match goal with |- context [list_loop pr (len ?l1) g ?l1 []] => set (l1' := l1) end.
    destruct (list_loop pr (len l1') g l1' []) eqn:E; try discriminate.
    exfalso. revert E. apply list_loop_nopanic.
    intros p Hin Hl. specialize (Hle p Hin Hl). subst l1'.
    destruct (Z.ltb_spec (Z.of_nat (length l) - 1) (key_max g)) as [Hlt|Hge].
    + rewrite len_app_repeat. unfold len. lia.
    + unfold len. lia.
Qed.

Lemma omap_nopanic {A B} (f : A -> B) (o : outcome A) : o <> Panic -> omap f o <> Panic.
Proof. destruct o; cbn; intros H; try discriminate; congruence. Qed.

Lemma ocons_nopanic {A} (x : A) o : o <> Panic -> ocons x o <> Panic.
Proof. destruct o; cbn; intros H; try discriminate; congruence. Qed.

Lemma scalar_loop_nopanic pr : forall g v, scalar_loop pr g v <> Panic.
Proof.
  induction g as [|p g IH]; intros v; cbn; [discriminate|].
  destruct (live p); [|apply IH]. destruct (set_prim pr p); [apply IH|discriminate].
Qed.

Lemma ptr_loop_nopanic pr : forall g o, ptr_loop pr g o <> Panic.
Proof.
  induction g as [|p g IH]; intros o; cbn; [discriminate|].
  destruct (live p); [|apply IH]. destruct (set_prim pr p); [apply IH|discriminate].
Qed.

Lemma map_loop_nopanic pr : forall g m, map_loop pr g m <> Panic.
Proof.
  induction g as [|p g IH]; intros m; cbn; [discriminate|].
  destruct (live p); [|apply IH]. destruct (set_prim pr p); [apply IH|discriminate].
Qed.

Lemma struct_loop_nopanic g : forall fs l, struct_loop fs l g <> Panic.
Proof.
  induction fs as [|[k pr] fs IH]; intros l; cbn; [discriminate|].
  destruct l as [|v l]; [discriminate|].
  destruct (find_last k g) as [p|].
  - destruct (live p).
    + destruct (set_prim pr p); [apply ocons_nopanic, IH|discriminate].
    + apply ocons_nopanic, IH.
  - apply ocons_nopanic, IH.
Qed.

Lemma set_value_nopanic k g v : set_value k g v <> Panic.
Proof.
  destruct k, v; cbn; try discriminate.
  - apply omap_nopanic, scalar_loop_nopanic.
  - apply omap_nopanic, ptr_loop_nopanic.
  - apply omap_nopanic, set_list_nopanic. exact I.
  - destruct (Nat.eqb_spec (length l) n); [|discriminate].
    apply omap_nopanic, set_list_nopanic. assumption.
  - apply omap_nopanic. unfold set_map. destruct (max_size <? length g)%nat; [discriminate|apply map_loop_nopanic].
  - apply omap_nopanic, struct_loop_nopanic.
  - destruct (valid_fields fs g); [discriminate|]. apply omap_nopanic, struct_loop_nopanic.
Qed.

Lemma dec_field_nopanic f v P E : dec_field f v P E <> Panic.
Proof.
  unfold dec_field. destruct (grp (f_type f) (if f_edge f then E else P)); [discriminate|apply set_value_nopanic].
Qed.

Lemma dec_fields_nopanic P E : forall ty vs, dec_fields ty vs P E <> Panic.
Proof.
  induction ty as [|f ty IH]; intros vs; cbn; [discriminate|].
  destruct vs as [|v vs]; [discriminate|].
  pose proof (dec_field_nopanic f v P E) as Hf. specialize (IH vs).
  destruct (dec_field f v P E); [apply ocons_nopanic; assumption| |congruence].
  destruct (dec_fields ty vs P E); [discriminate|discriminate|congruence].
Qed.

(* ---------- C11: totality ---------- *)
Theorem decode_into_total ty prior n : decode_into ty prior n <> Panic.
Proof. unfold decode_into. apply omap_nopanic, dec_fields_nopanic. Qed.

Theorem merge_points_total ty id pts c : merge_points ty id pts c <> Panic.
Proof.
  unfold merge_points. destruct (nonempty id && bytes_eqb (c_id c) id); [apply decode_into_total|discriminate].
Qed.

Theorem merge_edge_points_total ty id parent pts c : merge_edge_points ty id parent pts c <> Panic.
Proof.
  unfold merge_edge_points.
  destruct (nonempty id && bytes_eqb (c_id c) id && (negb (nonempty parent) || bytes_eqb (c_parent c) parent));
    [apply decode_into_total|discriminate].
Qed.

Theorem run_op_total ty op prior n : run_op ty op prior n <> Panic.
Proof.
  unfold run_op. destruct (op =? 0); [apply decode_into_total|].
  destruct (op =? 1); [apply merge_points_total|apply merge_edge_points_total].
Qed.

(* ---------- C11: undeclared types are ignored ---------- *)
Lemma filter_filter_imp {A} (f g : A -> bool) (l : list A) :
  (forall x, f x = true -> g x = true) -> filter f (filter g l) = filter f l.
Proof.
  intros H. induction l as [|x l IH]; cbn; [reflexivity|].
  destruct (g x) eqn:Eg; cbn.
  - rewrite IH. reflexivity.
  - destruct (f x) eqn:Ef; [rewrite (H x Ef) in Eg; discriminate|assumption].
Qed.

Lemma grp_declared ty f e pts :
  In f ty -> f_edge f = e -> grp (f_type f) (filter (declared ty e) pts) = grp (f_type f) pts.
Proof.
  intros Hin He. unfold grp. apply filter_filter_imp.
  intros p Hp. unfold declared. apply existsb_exists. exists f. split; [assumption|].
  rewrite He, eqb_reflx. cbn. apply bytes_eqb_eq. apply bytes_eqb_eq in Hp. congruence.
Qed.

Lemma dec_field_strip ty f v P E :
  In f ty ->
  dec_field f v (filter (declared ty false) P) (filter (declared ty true) E) = dec_field f v P E.
Proof.
  intros Hin. unfold dec_field. destruct (f_edge f) eqn:He.
  - rewrite (grp_declared ty f true E Hin He). reflexivity.
  - rewrite (grp_declared ty f false P Hin He). reflexivity.
Qed.

Lemma dec_fields_strip ty P E : forall ty' vs,
  incl ty' ty ->
  dec_fields ty' vs (filter (declared ty false) P) (filter (declared ty true) E) = dec_fields ty' vs P E.
Proof.
  induction ty' as [|f ty' IH]; intros vs Hi; cbn; [reflexivity|].
  destruct vs as [|v vs]; [reflexivity|].
  rewrite dec_field_strip by (apply Hi; left; reflexivity).
  rewrite IH by (intros x Hx; apply Hi; right; assumption). reflexivity.
Qed.

Theorem decode_into_strip ty prior n :
  decode_into ty prior (strip_undeclared ty n) = decode_into ty prior n.
Proof.
  unfold decode_into, strip_undeclared. cbn [n_id n_parent n_points n_edge].
  rewrite dec_fields_strip by apply incl_refl. reflexivity.
Qed.

Lemma filter_declared_twice ty e pts :
  filter (declared ty e) (filter (declared ty e) pts) = filter (declared ty e) pts.
Proof. apply filter_filter_imp. auto. Qed.

Theorem run_op_strip ty op prior n :
  run_op ty op prior (strip_undeclared ty n) = run_op ty op prior n.
Proof.
  unfold run_op. destruct (op =? 0); [apply decode_into_strip|].
  destruct (op =? 1).
  - unfold merge_points. cbn [strip_undeclared n_id n_parent n_points n_edge].
    destruct (nonempty (n_id n) && bytes_eqb (c_id prior) (n_id n)); [|reflexivity].
    pose proof (decode_into_strip ty prior {| n_id := n_id n; n_parent := []; n_points := n_points n; n_edge := [] |}) as H.
    unfold strip_undeclared in H. cbn [n_id n_parent n_points n_edge filter] in H. exact H.
  - unfold merge_edge_points. cbn [strip_undeclared n_id n_parent n_points n_edge].
    destruct (nonempty (n_id n) && bytes_eqb (c_id prior) (n_id n)
              && (negb (nonempty (n_parent n)) || bytes_eqb (c_parent prior) (n_parent n))); [|reflexivity].
    pose proof (decode_into_strip ty prior {| n_id := n_id n; n_parent := n_parent n; n_points := []; n_edge := n_edge n |}) as H.
    unfold strip_undeclared in H. cbn [n_id n_parent n_points n_edge filter] in H. exact H.
Qed.

Lemma run_op_1 ty prior n : run_op ty 1 prior n = merge_points ty (n_id n) (n_points n) prior.
Proof. reflexivity. Qed.
Lemma run_op_2 ty prior n : run_op ty 2 prior n = merge_edge_points ty (n_id n) (n_parent n) (n_edge n) prior.
Proof. reflexivity. Qed.

(* nothing declared: nothing changes, no error *)
Lemma dec_fields_nil : forall ty vs, dec_fields ty vs [] [] = Ok vs.
Proof.
  induction ty as [|f ty IH]; intros vs; cbn; [reflexivity|].
  destruct vs as [|v vs]; [reflexivity|].
  unfold dec_field. destruct (f_edge f); cbn; rewrite IH; reflexivity.
Qed.

Lemma filter_none {A} (f : A -> bool) l : (forall x, In x l -> f x = false) -> filter f l = [].
Proof.
  induction l as [|x l IH]; intros H; cbn; [reflexivity|].
  rewrite (H x) by (left; reflexivity). apply IH. intros; apply H; right; assumption.
Qed.

Theorem merge_points_undeclared ty id pts c :
  nonempty id = true -> c_id c = id ->
  (forall p, In p pts -> declared ty false p = false) ->
  merge_points ty id pts c = Ok c.
Proof.
  intros Hne Hid Hun.
  pose proof (run_op_strip ty 1 c {| n_id := id; n_parent := []; n_points := pts; n_edge := [] |}) as H.
  rewrite !run_op_1 in H. cbn [n_id n_parent n_points n_edge strip_undeclared] in H.
  rewrite <- H. rewrite (filter_none _ pts Hun). cbn [filter].
  unfold merge_points. rewrite Hne, Hid, bytes_eqb_refl. cbn [andb].
  unfold decode_into. cbn [n_id n_parent n_points n_edge]. rewrite dec_fields_nil. cbn [omap].
  destruct c as [ci cp cv]. cbn in *. subst ci. destruct id; [discriminate|reflexivity].
Qed.

Theorem merge_edge_points_undeclared ty id parent pts c :
  nonempty id = true -> c_id c = id -> (parent = [] \/ c_parent c = parent) ->
  (forall p, In p pts -> declared ty true p = false) ->
  merge_edge_points ty id parent pts c = Ok c.
Proof.
  intros Hne Hid Hpar Hun.
  pose proof (run_op_strip ty 2 c {| n_id := id; n_parent := parent; n_points := []; n_edge := pts |}) as H.
  rewrite !run_op_2 in H. cbn [n_id n_parent n_points n_edge strip_undeclared] in H.
  rewrite <- H. rewrite (filter_none _ pts Hun). cbn [filter].
  unfold merge_edge_points. rewrite Hne, Hid, bytes_eqb_refl. cbn [andb].
  assert (Hp : negb (nonempty parent) || bytes_eqb (c_parent c) parent = true).
  { destruct Hpar as [->| <-]; [reflexivity|]. rewrite bytes_eqb_refl. apply orb_true_r. }
  rewrite Hp. unfold decode_into. cbn [n_id n_parent n_points n_edge]. rewrite dec_fields_nil. cbn [omap].
  destruct c as [ci cp cv]. cbn in *. subst ci.
  destruct id; [discriminate|]. destruct Hpar as [->| <-]; [reflexivity|]. destruct cp; reflexivity.
Qed.
