(* C10 / C11 for child lists (`child:"type"` fields): Decode of a tree of nodes
   never panics, ignores children and points of undeclared types, and gives back
   the tree of structs whose Encodes were assembled into the tree of nodes. *)
From Coq Require Import ZifyN ZifyNat ZifyBool.
From Verif Require Import Base.Bytes Base.Val Codec.Model Codec.Basics Codec.Total Codec.Proofs Codec.Main.
Local Open Scope N_scope.

(* ---------- induction principles for the rose trees ---------- *)
Section TnodeInd.
Variable P : tnode -> Prop.
Hypothesis H : forall t n kids, Forall P kids -> P (TNode t n kids).
Fixpoint tnode_ind' (tn : tnode) : P tn :=
  match tn with
  | TNode t n kids =>
      H t n kids ((fix go (l : list tnode) : Forall P l :=
                     match l with
                     | [] => Forall_nil P
                     | k :: l' => Forall_cons k (tnode_ind' k) (go l')
                     end) kids)
  end.
End TnodeInd.

Section TtyInd.
Variable P : tty -> Prop.
Hypothesis H : forall fs kts, Forall (fun kt => P (snd kt)) kts -> P (TTy fs kts).
Fixpoint tty_ind' (ty : tty) : P ty :=
  match ty with
  | TTy fs kts =>
      H fs kts ((fix go (l : list (bytes * tty)) : Forall (fun kt => P (snd kt)) l :=
                   match l with
                   | [] => Forall_nil _
                   | kt :: l' => Forall_cons kt (tty_ind' (snd kt)) (go l')
                   end) kts)
  end.
End TtyInd.

Section TcfgInd.
Variable P : tcfg -> Prop.
Hypothesis H : forall c ks, Forall (Forall P) ks -> P (TCfg c ks).
Fixpoint tcfg_ind' (v : tcfg) : P v :=
  match v with
  | TCfg c ks =>
      H c ks ((fix go2 (l : list (list tcfg)) : Forall (Forall P) l :=
                 match l with
                 | [] => Forall_nil _
                 | k :: l' =>
                     Forall_cons k ((fix go1 (m : list tcfg) : Forall P m :=
                                       match m with
                                       | [] => Forall_nil P
                                       | x :: m' => Forall_cons x (tcfg_ind' x) (go1 m')
                                       end) k) (go2 l')
                 end) ks)
  end.
End TcfgInd.

(* ---------- totality ---------- *)
Lemma ocons2_nopanic {A} (o : outcome A) acc : o <> Panic -> acc <> Panic -> ocons2 o acc <> Panic.
Proof. destruct o, acc; cbn; congruence. Qed.

Lemma oseq_nopanic {A} (os : list (outcome A)) : Forall (fun o => o <> Panic) os -> oseq os <> Panic.
Proof.
  induction 1 as [|o os Ho _ IH]; cbn; [discriminate|]. apply ocons2_nopanic; assumption.
Qed.

Lemma tcombine_nopanic r0 rk : r0 <> Panic -> rk <> Panic -> tcombine r0 rk <> Panic.
Proof. destruct r0, rk; cbn; congruence. Qed.

Definition sub_total (sb : bytes * (tty -> tcfg -> outcome tcfg)) : Prop :=
  forall ty p, snd sb ty p <> Panic.

Lemma dec_kid_field_nopanic subs kt k : Forall sub_total subs -> dec_kid_field subs kt k <> Panic.
Proof.
  intros Hs. unfold dec_kid_field.
  destruct (filter (fun sb => bytes_eqb (fst sb) (fst kt)) subs) as [|sb g] eqn:E; [discriminate|].
  apply oseq_nopanic. rewrite <- E. apply Forall_map.
  rewrite Forall_forall in *. intros x Hx. apply filter_In in Hx. destruct Hx as [Hx _]. apply (Hs x Hx).
Qed.

Lemma dec_kid_fields_nopanic subs : forall kts ks,
  Forall sub_total subs -> Forall (fun o => o <> Panic) (dec_kid_fields subs kts ks).
Proof.
  induction kts as [|kt kts IH]; intros [|k ks] Hs; cbn [dec_kid_fields]; try constructor.
  - apply dec_kid_field_nopanic. assumption.
  - apply IH. assumption.
Qed.

Theorem decode_tree_total : forall tn ty prior, decode_tree tn ty prior <> Panic.
Proof.
  induction tn as [t n kids IH] using tnode_ind'. intros ty prior. cbn [decode_tree].
  apply tcombine_nopanic; [apply decode_into_total|].
  apply oseq_nopanic, dec_kid_fields_nopanic.
  apply Forall_map. eapply Forall_impl; [|exact IH]. intros k Hk ty' p. cbn [snd]. apply Hk.
Qed.

Lemma owrap_nopanic {A B} (f : A -> B) o : o <> Panic -> owrap f o <> Panic.
Proof. apply omap_nopanic. Qed.

Lemma first_some_In {A} (l : list (option A)) i a : first_some l = Some (i, a) -> In (Some a) l.
Proof.
  unfold first_some. generalize 0%nat. induction l as [|o l IH]; intros n Hf; [discriminate|].
  destruct o as [x|]; [inversion Hf; subst; left; reflexivity|]. right. eapply IH. eassumption.
Qed.

Theorem merge_tree_total upd :
  (forall fs c, upd fs c <> Panic) ->
  forall v ty test r, merge_tree v ty test upd = Some r -> r <> Panic.
Proof.
  intros Hupd. induction v as [c ks IH] using tcfg_ind'. intros ty test r. cbn [merge_tree].
  destruct (test c); [intros E; inversion E; subst; apply owrap_nopanic, Hupd|].
  generalize (@nil (list tcfg)) as before. generalize (tty_kids ty) as kts.
  induction ks as [|k ks IHks]; intros kts before Hm.
  - destruct kts; discriminate.
  - destruct kts as [|kt kts]; [discriminate|]. cbn [map] in Hm.
    inversion IH as [|? ? IHk IHrest]; subst.
    destruct (first_some (map (fun f => f (snd kt) test upd) (map (fun ch => merge_tree ch) k))) as [[i r0]|] eqn:Ef.
    + inversion Hm; subst. apply owrap_nopanic.
      apply first_some_In in Ef. rewrite map_map in Ef. apply in_map_iff in Ef. destruct Ef as (ch & Hch & Hin).
      rewrite Forall_forall in IHk. eapply IHk; eassumption.
    + eapply IHks; eassumption.
Qed.

Theorem merge_points_tree_total ty id pts v : merge_points_tree ty id pts v <> Panic.
Proof.
  unfold merge_points_tree. destruct (nonempty id); [|discriminate].
  destruct (merge_tree v ty _ _) as [r|] eqn:E; [|discriminate].
  eapply merge_tree_total; [|exact E]. intros fs c. apply decode_into_total.
Qed.

Theorem merge_edge_points_tree_total ty id parent pts v : merge_edge_points_tree ty id parent pts v <> Panic.
Proof.
  unfold merge_edge_points_tree. destruct (nonempty id); [|discriminate].
  destruct (merge_tree v ty _ _) as [r|] eqn:E; [|discriminate].
  eapply merge_tree_total; [|exact E]. intros fs c. apply decode_into_total.
Qed.

Theorem run_op_tree_total ty op prior tn : run_op_tree ty op prior tn <> Panic.
Proof.
  unfold run_op_tree. destruct (op =? 0); [apply decode_tree_total|].
  destruct (op =? 1); [apply merge_points_tree_total|apply merge_edge_points_tree_total].
Qed.

(* ---------- children and points of undeclared types are ignored ---------- *)
Fixpoint tags_distinct (ty : tty) : bool :=
  match ty with
  | TTy _ kts => distinct (map fst kts) && forallb (fun kt => tags_distinct (snd kt)) kts
  end.

Lemma tn_type_strip tn ty : tn_type (strip_tree tn ty) = tn_type tn.
Proof. destruct tn. reflexivity. Qed.

Lemma kid_type_in : forall kts tg cty,
  distinct (map fst kts) = true -> In (tg, cty) kts -> kid_type tg kts = Some cty.
Proof.
  induction kts as [|[t c] kts IH]; intros tg cty Hd Hin; [destruct Hin|].
  cbn [map fst] in Hd. apply distinct_cons in Hd. destruct Hd as [Hn Hd]. cbn [kid_type].
  destruct Hin as [E|Hin].
  - inversion E; subst. rewrite bytes_eqb_refl. reflexivity.
  - destruct (bytes_eqb t tg) eqn:Et.
    + apply bytes_eqb_eq in Et. subst t. exfalso. apply Hn. apply in_map_iff. exists (tg, cty). split; [reflexivity|assumption].
    + apply IH; assumption.
Qed.

Lemma kid_type_none_neq : forall kts t tg cty, kid_type t kts = None -> In (tg, cty) kts -> bytes_eqb t tg = false.
Proof.
  induction kts as [|[t' c] kts IH]; intros t tg cty Hk Hin; [destruct Hin|].
  cbn [kid_type] in Hk. destruct (bytes_eqb t' t) eqn:E; [discriminate|].
  destruct Hin as [E'|Hin]; [inversion E'; subst; rewrite bytes_eqb_sym; assumption|eapply IH; eassumption].
Qed.

(* dec_kid_field only looks at the results of the children of the field's type *)
Definition kid_results (subs : list (bytes * (tty -> tcfg -> outcome tcfg))) (kt : bytes * tty) : list (outcome tcfg) :=
  map (fun sb => snd sb (snd kt) (zero_tcfg (snd kt))) (filter (fun sb => bytes_eqb (fst sb) (fst kt)) subs).

Lemma dec_kid_field_alt subs kt k :
  dec_kid_field subs kt k = match kid_results subs kt with [] => Ok k | rs => oseq rs end.
Proof.
  unfold dec_kid_field, kid_results. destruct (filter _ subs); reflexivity.
Qed.

Definition mk_subs (kids : list tnode) : list (bytes * (tty -> tcfg -> outcome tcfg)) :=
  map (fun k => (tn_type k, decode_tree k)) kids.

Lemma kid_results_app a b kt : kid_results (a ++ b) kt = kid_results a kt ++ kid_results b kt.
Proof. unfold kid_results. rewrite filter_app, map_app. reflexivity. Qed.

Lemma dec_kid_fields_ext subs1 subs2 : forall kts ks,
  (forall kt, In kt kts -> kid_results subs1 kt = kid_results subs2 kt) ->
  dec_kid_fields subs1 kts ks = dec_kid_fields subs2 kts ks.
Proof.
  induction kts as [|kt kts IH]; intros [|k ks] H; cbn [dec_kid_fields]; try reflexivity.
  rewrite !dec_kid_field_alt, H by (left; reflexivity). f_equal. apply IH. intros x Hx. apply H. right. assumption.
Qed.

Theorem decode_tree_strip : forall tn ty prior,
  tags_distinct ty = true -> decode_tree (strip_tree tn ty) ty prior = decode_tree tn ty prior.
Proof.
  induction tn as [t n kids IH] using tnode_ind'. intros ty prior Htd.
  cbn [strip_tree decode_tree]. rewrite decode_into_strip.
  destruct ty as [fs kts]. cbn [tty_fields tty_kids tags_distinct] in *.
  apply andb_true_iff in Htd. destruct Htd as [Hd Hsub]. rewrite forallb_forall in Hsub.
  f_equal. f_equal.
  fold (mk_subs kids).
  match goal with |- dec_kid_fields ?s1 _ _ = _ => set (subs' := s1) end.
  assert (Hres : forall kt, In kt kts -> kid_results subs' kt = kid_results (mk_subs kids) kt).
  { intros [tg cty] Hin. subst subs'. clear prior.
    induction IH as [|k kids Hk _ IHk]; [reflexivity|].
    cbn [map flat_map fst snd mk_subs]. fold (mk_subs kids).
    change ((tn_type k, decode_tree k) :: mk_subs kids) with ([(tn_type k, decode_tree k)] ++ mk_subs kids).
    rewrite map_app, !kid_results_app, IHk. f_equal.
    destruct (kid_type (tn_type k) kts) as [c'|] eqn:Ek.
    - unfold kid_results. cbn [map filter fst snd]. rewrite tn_type_strip.
      destruct (bytes_eqb (tn_type k) tg) eqn:Et; [|reflexivity].
      apply bytes_eqb_eq in Et. rewrite Et in Ek. rewrite (kid_type_in kts tg cty Hd Hin) in Ek.
      inversion Ek; subst c'. cbn [map snd]. f_equal. apply Hk. apply (Hsub (tg, cty) Hin).
    - unfold kid_results. cbn [map filter fst snd].
      rewrite (kid_type_none_neq kts _ tg cty Ek Hin). reflexivity. }
  apply dec_kid_fields_ext. exact Hres.
Qed.

(* ---------- round trip of trees ---------- *)
Definition enc_kids (enc : bytes -> tty -> tcfg -> option tnode) :=
  fix go (kts : list (bytes * tty)) (ks : list (list tcfg)) : option (list tnode) :=
    match kts, ks with
    | (t, cty) :: kts', k :: ks' =>
        match opt_seq (map (fun ch => enc t cty ch) k), go kts' ks' with
        | Some a, Some r => Some (a ++ r)
        | _, _ => None
        end
    | _, _ => Some []
    end.

Lemma encode_tree_unfold nt fs kts c ks :
  encode_tree nt (TTy fs kts) (TCfg c ks) =
  match encode fs c with
  | Ok n => match enc_kids encode_tree kts ks with
            | Some kids => Some (TNode nt n kids)
            | None => None
            end
  | _ => None
  end.
Proof. reflexivity. Qed.

Definition wf_kids :=
  fix go (kts : list (bytes * tty)) (ks : list (list tcfg)) : bool :=
    match kts, ks with
    | [], [] => true
    | kt :: kts', k :: ks' => forallb (fun ch => wf_tcfg (snd kt) ch) k && go kts' ks'
    | _, _ => false
    end.

Lemma wf_tcfg_unfold fs kts c ks :
  wf_tcfg (TTy fs kts) (TCfg c ks) = wfb fs c && wf_kids kts ks.
Proof. reflexivity. Qed.

Lemma oseq_oks {A} (l : list A) : oseq (map Ok l) = Ok l.
Proof. induction l as [|x l IH]; cbn; [reflexivity|]. unfold oseq in IH. rewrite IH. reflexivity. Qed.

Lemma kid_results_other l t cty :
  (forall k, In k l -> tn_type k <> t) -> kid_results (mk_subs l) (t, cty) = [].
Proof.
  intros H. unfold kid_results, mk_subs. cbn [fst snd].
  rewrite (filter_none _ (map (fun k => (tn_type k, decode_tree k)) l)); [reflexivity|].
  intros sb Hsb. apply in_map_iff in Hsb. destruct Hsb as (k & <- & Hk). cbn [fst].
  apply bytes_eqb_neq. apply H. assumption.
Qed.

Lemma kid_results_all l t cty :
  Forall (fun k => tn_type k = t) l ->
  kid_results (mk_subs l) (t, cty) = map (fun e => decode_tree e cty (zero_tcfg cty)) l.
Proof.
  induction 1 as [|k l Hk _ IH]; [reflexivity|].
  unfold kid_results, mk_subs in *. cbn [map filter fst snd] in *. rewrite Hk, bytes_eqb_refl.
  cbn [map snd]. f_equal. exact IH.
Qed.

Definition rt_prop (cty : tty) : Prop :=
  forall nt v, wf_tty cty = true -> wf_tcfg cty v = true ->
  exists tn, encode_tree nt cty v = Some tn /\ tn_type tn = nt /\ decode_tree tn cty (zero_tcfg cty) = Ok v.

(* the children of one field *)
Lemma child_list_rt t cty : rt_prop cty -> wf_tty cty = true ->
  forall k, forallb (fun ch => wf_tcfg cty ch) k = true ->
  exists es, opt_seq (map (fun ch => encode_tree t cty ch) k) = Some es /\
             Forall (fun e => tn_type e = t) es /\
             map (fun e => decode_tree e cty (zero_tcfg cty)) es = map Ok k.
Proof.
  intros Hrt Hty. induction k as [|ch k IH]; intros Hw.
  - exists []. repeat split. constructor.
  - cbn [forallb] in Hw. apply andb_true_iff in Hw. destruct Hw as [Hch Hw].
    destruct (IH Hw) as (es & He & Ht & Hd).
    destruct (Hrt t ch Hty Hch) as (e & Ee & Te & De).
    exists (e :: es). cbn [map opt_seq fold_right]. unfold opt_seq in He. rewrite Ee, He.
    repeat split; [constructor; assumption|]. cbn [map]. rewrite De, Hd. reflexivity.
Qed.

Lemma kids_rt : forall kts,
  Forall (fun kt => rt_prop (snd kt)) kts ->
  forall ks,
  distinct (map fst kts) = true ->
  forallb (fun kt => nonempty (fst kt) && wf_tty (snd kt)) kts = true ->
  wf_kids kts ks = true ->
  exists kids, enc_kids encode_tree kts ks = Some kids /\
    (forall k, In k kids -> In (tn_type k) (map fst kts)) /\
    forall pre, (forall k, In k pre -> ~ In (tn_type k) (map fst kts)) ->
      oseq (dec_kid_fields (mk_subs (pre ++ kids)) kts (map (fun _ => []) kts)) = Ok ks.
Proof.
  induction kts as [|[t cty] kts IH]; intros Hrt ks Hd Hw Hk.
  - destruct ks; [|discriminate]. exists []. split; [reflexivity|]. split; [intros k []|]. intros pre _. reflexivity.
  - destruct ks as [|k ks]; [discriminate|].
    inversion Hrt as [|? ? Hrt1 Hrt']; subst. cbn [snd] in Hrt1.
    cbn [map fst] in Hd. apply distinct_cons in Hd. destruct Hd as [Hn Hd].
    cbn [forallb fst snd] in Hw. apply andb_true_iff in Hw. destruct Hw as [Hw1 Hw].
    apply andb_true_iff in Hw1. destruct Hw1 as [_ Hty].
    cbn [wf_kids snd] in Hk. apply andb_true_iff in Hk. destruct Hk as [Hk1 Hk].
    destruct (IH Hrt' ks Hd Hw Hk) as (rest & Er & Trest & Drest).
    destruct (child_list_rt t cty Hrt1 Hty k Hk1) as (es & Ees & Tes & Des).
    exists (es ++ rest). cbn [enc_kids]. fold (enc_kids encode_tree). rewrite Ees, Er.
    split; [reflexivity|]. split.
    + intros x Hx. apply in_app_or in Hx. destruct Hx as [Hx|Hx].
      * left. rewrite Forall_forall in Tes. symmetry. apply Tes. assumption.
      * right. apply Trest. assumption.
    + intros pre Hpre. cbn [map dec_kid_fields]. rewrite dec_kid_field_alt.
      unfold mk_subs. rewrite !map_app. fold (mk_subs pre) (mk_subs es) (mk_subs rest).
      rewrite !kid_results_app.
      rewrite (kid_results_other pre), (kid_results_all es), (kid_results_other rest); try assumption.
      * cbn [app]. rewrite app_nil_r, Des.
        assert (Hfield : match map (@Ok tcfg) k with [] => Ok [] | o :: l => oseq (o :: l) end = Ok k).
        { destruct k as [|x k]; [reflexivity|]. apply (oseq_oks (x :: k)). }
        rewrite Hfield. unfold oseq. cbn [fold_right]. fold (@oseq (list tcfg)).
        specialize (Drest (pre ++ es)).
        replace (mk_subs pre ++ mk_subs es ++ mk_subs rest) with (mk_subs ((pre ++ es) ++ rest))
          by (unfold mk_subs; rewrite !map_app, app_assoc; reflexivity).
        unfold oseq in Drest. rewrite Drest; [reflexivity|].
        intros x Hx. apply in_app_or in Hx. destruct Hx as [Hx|Hx].
        -- intros C. apply (Hpre x Hx). right. assumption.
        -- rewrite Forall_forall in Tes. rewrite (Tes x Hx). assumption.
      * intros x Hx E. apply Hn. rewrite <- E. apply Trest. assumption.
      * intros x Hx E. apply (Hpre x Hx). left. symmetry. assumption.
Qed.

Theorem tree_roundtrip : forall ty, rt_prop ty.
Proof.
  induction ty as [fs kts IH] using tty_ind'. intros nt [c ks] Hty Hw.
  cbn [wf_tty] in Hty. apply andb_true_iff in Hty. destruct Hty as [Hty Hsub].
  apply andb_true_iff in Hty. destruct Hty as [Hfs Hd].
  rewrite wf_tcfg_unfold in Hw. apply andb_true_iff in Hw. destruct Hw as [Hc Hk].
  destruct (roundtrip_final fs c Hfs Hc) as (n & En & Dn).
  destruct (kids_rt kts IH ks Hd Hsub Hk) as (kids & Ek & _ & Dk).
  exists (TNode nt n kids). rewrite encode_tree_unfold, En, Ek. repeat split.
  cbn [decode_tree zero_tcfg tty_fields tty_kids tc_cfg tc_kids].
  fold (decode fs n). rewrite Dn.
  specialize (Dk [] (fun k H => match H with end)). cbn [app] in Dk. unfold mk_subs in Dk. rewrite Dk. reflexivity.
Qed.
