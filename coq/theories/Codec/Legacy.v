(* C10 / C11: concrete witnesses.
   - the pinned (unrepaired) GroupedPoints.SetValue reaches Panic (F8);
   - boundary behaviour outside the well-formed domain (documented, not violations);
   - the map limit that makes C10_diff_merge need [diffs_small];
   - a non-trivial well-formed example. *)
From Verif Require Import Base.Bytes Codec.Model Codec.DiffMerge.
Local Open Scope N_scope.

(* ------------------------------------------------------------------ *)
(* the slice case of SetValue as it was before the repair               *)
(* ------------------------------------------------------------------ *)
(* Tombstone%2 == 1 (Go's % truncates: false for negative odd counts) *)
Definition tomb_legacy (p : point) : bool := (Z.rem (p_tomb p) 2 =? 1)%Z.
(* Decode's grouping: a blank key is skipped; live means Tombstone%2 == 0 *)
Definition key_index_legacy (k : bytes) : option (option N) :=
  match k with
  | [] => Some None
  | _ => match key_index k with Some i => Some (Some i) | None => None end
  end.
Definition key_bad_legacy (p : point) : bool :=
  match key_index_legacy (p_key p) with None => true | _ => false end.
Definition key_max_legacy (g : list point) : Z :=
  fold_left (fun m p => match key_index_legacy (p_key p) with
                        | Some (Some i) => if (Z.rem (p_tomb p) 2 =? 0)%Z && (m <? Z.of_N i)%Z then Z.of_N i else m
                        | _ => m
                        end) g (-1)%Z.

Fixpoint list_loop_legacy (pr : prim) (n : N) (g : list point) (l : list pval) (dels : list N) : loopres :=
  match g with
  | [] => LOk l dels
  | p :: g' =>
      let i := idx_of p in
      if tomb_legacy p then
        if i <? n then list_loop_legacy pr n g' (set_nth (N.to_nat i) (zero_prim pr) l) (i :: dels)
        else list_loop_legacy pr n g' l (i :: dels)
      else if i <? n then
        (* setVal again tests Tombstone%2 == 1, so the point is written as live *)
        match set_prim pr p with
        | Some v => list_loop_legacy pr n g' (set_nth (N.to_nat i) v l) dels
        | None => LErr l
        end
      else LPanic
  end.

Definition set_slice_legacy (pr : prim) (g : list point) (l : list pval) : outcome (list pval) :=
  if existsb key_bad_legacy g then Err l
  else let km := key_max_legacy g in
  if (Z.of_nat max_size <? km)%Z then Err l
  else
    let l1 := if (Z.of_nat (length l) - 1 <? km)%Z
              then l ++ repeat (zero_prim pr) (Z.to_nat (km + 1) - length l) else l in
    match list_loop_legacy pr (len l1) g l1 [] with
    | LOk l' dels => Ok (firstn (trim_len dels (length l')) l')
    | LErr l' => Err l'
    | LPanic => Panic
    end.

Definition lpt (k : bytes) (t : Z) : point :=
  {| p_type := [115]; p_key := k; p_value := f64_one; p_text := []; p_tomb := t |}.

(* (i) a live point with a blank key into an empty slice: KeyMaxInt stays -1, Index(0) panics
   (ii) a negative odd tombstone with an index past the end: live for SetValue, not counted by the grouping *)
Theorem C11_current_refuted :
  set_slice_legacy PBool [lpt [] 0] [] = Panic /\
  set_slice_legacy PBool [lpt [53] (-1)] [] = Panic.
Proof. split; vm_compute; reflexivity. Qed.

(* the repaired code on the same inputs *)
Example C11_repaired_same_inputs :
  set_list None PBool [lpt [] 0] [] = Ok [VBool true] /\
  set_list None PBool [lpt [53] (-1)] [] = Ok [].
Proof. split; vm_compute; reflexivity. Qed.

(* ------------------------------------------------------------------ *)
(* a well-formed example                                                *)
(* ------------------------------------------------------------------ *)
Definition s (l : list N) : bytes := l.
Definition ex_ty : cfgty :=
  [ {| f_edge := false; f_type := [100]; f_kind := KScalar PStr |};                 (* "d" *)
    {| f_edge := false; f_type := [105; 112]; f_kind := KSlice PStr |};             (* "ip" *)
    {| f_edge := false; f_type := [109]; f_kind := KMap (PInt 64) |};               (* "m" *)
    {| f_edge := false; f_type := [97]; f_kind := KArray 3 PBool |};                (* "a" *)
    {| f_edge := false; f_type := [99]; f_kind := KPtr (PInt 32) |};                (* "c" *)
    {| f_edge := false; f_type := [102]; f_kind := KSlice PF32 |};                  (* "f" *)
    {| f_edge := false; f_type := [113]; f_kind := KPtrStruct [([120], PInt 8); ([121], PF64)] |};
    {| f_edge := true; f_type := [114]; f_kind := KScalar (PUint 8) |} ].           (* edge "r" *)

Definition ex_a : cfg :=
  {| c_id := [49]; c_parent := [50];
     c_vals := [ FScalar (VStr [104; 105]);
                 FList [VStr [49; 46; 49]; VStr []; VStr [50]];
                 FMap [([47], VInt 43); ([47; 104], VInt (-75))];
                 FList [VBool false; VBool true; VBool true];
                 FPtr (Some (VInt (-2147483648)));
                 FList [VF32 1; VF32 (2^31 + 255 * 2^23); VF32 1036831949];
                 FPtrStruct (Some [VInt (-128); VF64 (1023 * 2^52 + 1)]);
                 FScalar (VInt 255) ] |}.

Definition ex_b : cfg :=
  {| c_id := [49]; c_parent := [50];
     c_vals := [ FScalar (VStr []);
                 FList [VStr [49; 46; 49]];
                 FMap [([47; 104], VInt 9007199254740991); ([116], VInt 0)];
                 FList [VBool true; VBool true; VBool false];
                 FPtr None;
                 FList [VF32 1; VF32 2; VF32 3; VF32 (255 * 2^23)];
                 FPtrStruct None;
                 FScalar (VInt 255) ] |}.

Lemma ex_wf :
  wf_ty ex_ty = true /\ wfzb ex_ty ex_a = true /\ wfzb ex_ty ex_b = true /\
  (exists n, encode ex_ty ex_a = Ok n /\ decode ex_ty n = Ok ex_a) /\
  (exists ps, diff ex_ty ex_a ex_b = Ok ps /\ merge_points ex_ty (c_id ex_a) ps ex_a = Ok ex_b).
Proof.
  split; [vm_compute; reflexivity|]. split; [vm_compute; reflexivity|]. split; [vm_compute; reflexivity|]. split.
  - let r := eval vm_compute in (encode ex_ty ex_a) in match r with Ok ?x => exists x end.
    split; vm_compute; reflexivity.
  - let r := eval vm_compute in (diff ex_ty ex_a ex_b) in match r with Ok ?x => exists x end.
    split; vm_compute; reflexivity.
Qed.

(* a tree: the example struct with child lists "k" (two leaves) and "z" (none) *)
Definition leaf_ty : tty := TTy [ {| f_edge := false; f_type := [118]; f_kind := KScalar (PInt 64) |} ] [].
Definition ex_tty : tty := TTy ex_ty [([107], leaf_ty); ([122], leaf_ty)].
Definition leaf (id : N) (x : Z) : tcfg := TCfg {| c_id := [id]; c_parent := [49]; c_vals := [FScalar (VInt x)] |} [].
Definition ex_tree : tcfg := TCfg ex_a [[leaf 50 7; leaf 51 (-7)]; []].

Lemma ex_tree_ok :
  wf_tty ex_tty = true /\ wf_tcfg ex_tty ex_tree = true /\
  exists tn, encode_tree [114] ex_tty ex_tree = Some tn /\ decode_tree tn ex_tty (zero_tcfg ex_tty) = Ok ex_tree.
Proof.
  split; [vm_compute; reflexivity|]. split; [vm_compute; reflexivity|].
  let r := eval vm_compute in (encode_tree [114] ex_tty ex_tree) in match r with Some ?x => exists x end.
  split; vm_compute; reflexivity.
Qed.

(* ------------------------------------------------------------------ *)
(* boundary behaviour                                                   *)
(* ------------------------------------------------------------------ *)
Definition bk_ty : cfgty := [ {| f_edge := false; f_type := [109]; f_kind := KMap PBool |} ].
Definition bk_v : cfg := {| c_id := [49]; c_parent := []; c_vals := [FMap [([], VBool true); ([97], VBool false)]] |}.
Definition bk_v' : cfg := {| c_id := [49]; c_parent := []; c_vals := [FMap [([48], VBool true); ([97], VBool false)]] |}.

Lemma boundary_blank_map_key : exists n, encode bk_ty bk_v = Ok n /\ decode bk_ty n = Ok bk_v'.
Proof.
  let r := eval vm_compute in (encode bk_ty bk_v) in match r with Ok ?x => exists x end.
  split; vm_compute; reflexivity.
Qed.

Definition nz_ty : cfgty := [ {| f_edge := false; f_type := [118]; f_kind := KScalar PF64 |};
                              {| f_edge := false; f_type := [105]; f_kind := KScalar (PInt 64) |} ].
Definition nz_a : cfg := {| c_id := [49]; c_parent := []; c_vals := [FScalar (VF64 0); FScalar (VInt 0)] |}.
Definition nz_b : cfg := {| c_id := [49]; c_parent := []; c_vals := [FScalar (VF64 (2^63)); FScalar (VInt 0)] |}.
Definition big_int : cfg := {| c_id := [49]; c_parent := []; c_vals := [FScalar (VF64 0); FScalar (VInt (2^53))] |}.

Lemma boundary_negative_zero : diff nz_ty nz_a nz_b = Ok [] /\ nz_a <> nz_b.
Proof. split; [vm_compute; reflexivity|discriminate]. Qed.

Lemma boundary_unsafe_integer : exists e, encode nz_ty big_int = Err e.
Proof.
  let r := eval vm_compute in (encode nz_ty big_int) in match r with Err ?x => exists x end.
  vm_compute. reflexivity.
Qed.

(* ------------------------------------------------------------------ *)
(* the map limit: 501 entries before, 500 other entries after           *)
(* ------------------------------------------------------------------ *)
Definition mk_entries (lo : N) (n : nat) : list (bytes * pval) :=
  map (fun i => (107 :: itoa (lo + N.of_nat i), VInt 0)) (seq 0 n).
Definition bm_ty : cfgty := [ {| f_edge := false; f_type := [109]; f_kind := KMap (PInt 64) |} ].
Definition bm_a : cfg := {| c_id := [49]; c_parent := []; c_vals := [FMap (mk_entries 1000 501)] |}.
Definition bm_b : cfg := {| c_id := [49]; c_parent := []; c_vals := [FMap (mk_entries 2000 500)] |}.

Lemma big_map_refuted :
  exists ty a b,
    wf_ty ty = true /\ wfzb ty a = true /\ wfzb ty b = true /\ nonempty (c_id a) = true /\
    exists ps e, diff ty a b = Ok ps /\ merge_points ty (c_id a) ps a = Err e.
Proof.
  exists bm_ty, bm_a, bm_b.
  split; [vm_compute; reflexivity|]. split; [vm_compute; reflexivity|]. split; [vm_compute; reflexivity|].
  split; [reflexivity|].
  let r := eval vm_compute in (diff bm_ty bm_a bm_b) in
  match r with Ok ?x =>
    exists x;
    let r2 := eval vm_compute in (merge_points bm_ty (c_id bm_a) x bm_a) in
    match r2 with Err ?e => exists e end
  end.
  split; vm_compute; reflexivity.
Qed.
