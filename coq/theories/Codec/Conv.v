(* [conv_exact] for the bit-level functions of Codec/Model.v: float64(z)
   followed by int64() / uint64() is the identity for |z| <= 2^53-1, and
   float64(x) followed by float32() is the identity on every float32 x that is
   not a NaN (zero, subnormal, normal, infinite).  Plain N arithmetic, no
   real-number library.  That these functions are what the hardware computes
   is checked by every correspondence run. *)
From Coq Require Import ZifyN ZifyNat ZifyBool.
From Verif Require Import Base.Bytes Codec.Model.
Local Open Scope N_scope.
Ltac Zify.zify_post_hook ::= Z.div_mod_to_equations.

(* the fields of a bit pattern assembled from sign, exponent and mantissa *)
Lemma fields s e m :
  s <= 1 -> e < 2^11 -> m < 2^52 ->
  let b := s * 2^63 + e * 2^52 + m in
  f64_sign b = s /\ f64_exp b = e /\ f64_man b = m.
Proof.
  intros Hs He Hm b. subst b. unfold f64_sign, f64_exp, f64_man.
  change (2^63) with 9223372036854775808. change (2^52) with 4503599627370496. change (2^11) with 2048 in *.
  change (2^52) with 4503599627370496 in Hm.
  repeat split; lia.
Qed.

Lemma pow_split k : k <= 52 -> 2^k * 2^(52 - k) = 2^52.
Proof. intros H. rewrite <- N.pow_add_r. f_equal. lia. Qed.

(* float64(n) for 0 < n < 2^53: exponent 1023 + log2 n, mantissa n shifted left *)
Lemma of_N_shape n :
  0 < n -> n < 2^53 ->
  let k := N.log2 n in
  k <= 52 /\ 2^52 <= n * 2^(52 - k) /\ n * 2^(52 - k) < 2^53 /\
  f64_of_N n = (1023 + k) * 2^52 + (n * 2^(52 - k) - 2^52).
Proof.
  intros Hpos Hn k.
  assert (Hk : k <= 52).
  { assert (k < 53); [|lia]. apply N.log2_lt_pow2; assumption. }
  destruct (N.log2_spec n Hpos) as [Hlo Hhi]. fold k in Hlo, Hhi.
  pose proof (pow_split k Hk) as Hq.
  set (q := 2^(52 - k)) in *.
  assert (Hqpos : 0 < q) by (unfold q; apply N.neq_0_lt_0, N.pow_nonzero; lia).
  rewrite N.pow_succ_r' in Hhi.
  repeat split; try assumption.
  - rewrite <- Hq. apply N.mul_le_mono_r. assumption.
  - change (2^53) with (2 * 2^52). rewrite <- Hq.
    replace (2 * (2^k * q)) with ((2 * 2^k) * q) by lia. apply N.mul_lt_mono_pos_r; assumption.
  - unfold f64_of_N. assert (n =? 0 = false) as -> by lia. fold k.
    assert (k <=? 52 = true) as -> by lia. reflexivity.
Qed.

Lemma trunc_of_N s n :
  s <= 1 -> 0 < n -> n < 2^53 ->
  let b := s * 2^63 + f64_of_N n in
  f64_sign b = s /\ f64_exp b = 1023 + N.log2 n /\ f64_trunc_mag b = n.
Proof.
  intros Hs Hpos Hn b. subst b.
  destruct (of_N_shape n Hpos Hn) as (Hk & Hlo & Hhi & ->).
  set (k := N.log2 n) in *. set (np := n * 2^(52 - k)) in *.
  assert (Hm : np - 2^52 < 2^52) by (change (2^53) with (2 * 2^52) in Hhi; lia).
  assert (He : 1023 + k < 2^11) by (change (2^11) with 2048; lia).
  destruct (fields s (1023 + k) (np - 2^52) Hs He Hm) as (F1 & F2 & F3).
  rewrite N.add_assoc. repeat split; try assumption.
  unfold f64_trunc_mag. rewrite F2, F3.
  assert (1023 + k <? 1023 = false) as -> by lia.
  replace (2^52 + (np - 2^52)) with np by lia.
  destruct (N.ltb_spec (1023 + k) 1075).
  - replace (1075 - (1023 + k)) with (52 - k) by lia. unfold np.
    apply N.div_mul. apply N.pow_nonzero. lia.
  - assert (k = 52) by lia. subst np. replace (52 - k) with 0 by lia.
    replace (1023 + k - 1075) with 0 by lia. cbn. lia.
Qed.

Theorem int_exact z : (- max_safe <= z <= max_safe)%Z -> f64_to_int64 (f64_of_Z z) = z.
Proof.
  unfold max_safe. intros Hz. destruct z as [|p|p]; [reflexivity| |].
  - cbn [f64_of_Z].
    assert (T : 0 <= 1 /\ 0 < N.pos p /\ N.pos p < 2^53) by lia. destruct T as (T1 & T2 & T3).
    pose proof (trunc_of_N 0 (Npos p) T1 T2 T3) as T. cbv zeta in T. rewrite N.mul_0_l, N.add_0_l in T.
    destruct T as (F1 & F2 & F3). unfold f64_to_int64. rewrite F1, F2, F3.
    assert (N.log2 (N.pos p) <= 52) by (apply (of_N_shape (Npos p)); lia).
    assert (1086 <=? 1023 + N.log2 (N.pos p) = false) as -> by lia. reflexivity.
  - cbn [f64_of_Z].
    assert (T : 1 <= 1 /\ 0 < N.pos p /\ N.pos p < 2^53) by lia. destruct T as (T1 & T2 & T3).
    pose proof (trunc_of_N 1 (Npos p) T1 T2 T3) as T. cbv zeta in T. rewrite N.mul_1_l in T.
    destruct T as (F1 & F2 & F3). unfold f64_to_int64. rewrite F1, F2, F3.
    assert (N.log2 (N.pos p) <= 52) by (apply (of_N_shape (Npos p)); lia).
    assert (1086 <=? 1023 + N.log2 (N.pos p) = false) as -> by lia. reflexivity.
Qed.

Theorem uint_exact z :
  (0 <= z <= max_safe)%Z -> f64_lt0 (f64_of_Z z) = false /\ f64_to_uint64 (f64_of_Z z) = z.
Proof.
  unfold max_safe. intros Hz. destruct z as [|p|p]; [split; reflexivity| |lia].
  cbn [f64_of_Z].
  assert (T : 0 <= 1 /\ 0 < N.pos p /\ N.pos p < 2^53) by lia. destruct T as (T1 & T2 & T3).
  pose proof (trunc_of_N 0 (Npos p) T1 T2 T3) as T. cbv zeta in T. rewrite N.mul_0_l, N.add_0_l in T.
  destruct T as (F1 & F2 & F3). split.
  - unfold f64_lt0. rewrite F1. reflexivity.
  - unfold f64_to_uint64. rewrite F2, F3.
    assert (N.log2 (N.pos p) <= 52) by (apply (of_N_shape (Npos p)); lia).
    assert (1087 <=? 1023 + N.log2 (N.pos p) = false) as -> by lia. reflexivity.
Qed.

(* ---------- float64(float32) and back ---------- *)
Lemma f32_split b :
  b < 2^32 ->
  let s := b / 2^31 in let e := (b / 2^23) mod 2^8 in let m := b mod 2^23 in
  s <= 1 /\ e < 256 /\ m < 2^23 /\ b = s * 2^31 + e * 2^23 + m.
Proof.
  intros Hb. cbv zeta.
  change (2^32) with 4294967296 in Hb. change (2^31) with 2147483648. change (2^23) with 8388608. change (2^8) with 256.
  repeat split; lia.
Qed.

Lemma round_exact M sh q :
  0 < sh -> M = q * 2^sh ->
  (if (2^(sh - 1) <? M mod 2^sh) || ((M mod 2^sh =? 2^(sh - 1)) && N.odd (M / 2^sh))
   then M / 2^sh + 1 else M / 2^sh) = q.
Proof.
  intros Hsh ->.
  assert (Hp : 2^sh <> 0) by (apply N.pow_nonzero; lia).
  rewrite N.div_mul, N.mod_mul by assumption.
  assert (Hh : 0 < 2^(sh - 1)) by (apply N.neq_0_lt_0, N.pow_nonzero; lia).
  assert (2^(sh - 1) <? 0 = false) as -> by lia.
  assert (0 =? 2^(sh - 1) = false) as -> by lia. reflexivity.
Qed.

Theorem f32_exact b : b < 2^32 -> f32_is_nan b = false -> f32_of_f64 (f64_of_f32 b) = b.
Proof.
  intros Hb Hnan.
  destruct (f32_split b Hb) as (Hs & He & Hm & Eb). cbv zeta in *.
  unfold f32_is_nan in Hnan. unfold f64_of_f32.
  set (s := b / 2^31) in *. set (e := (b / 2^23) mod 2^8) in *. set (m := b mod 2^23) in *.
  destruct (N.eqb_spec e 255) as [E255|N255].
  - (* infinity *)
    assert (m = 0) by (destruct (N.eqb_spec m 0); [assumption|discriminate]).
    assert (m =? 0 = true) as -> by lia.
    assert (F : 2047 < 2^11 /\ 0 < 2^52) by (cbn; lia). destruct F as [F1 F2].
    destruct (fields s 2047 0 Hs F1 F2) as (G1 & G2 & G3). rewrite N.add_0_r in *.
    unfold f32_of_f64. rewrite G1, G2, G3. cbn [N.eqb Pos.eqb].
    change (2047 =? 2047) with true. cbv iota. change (0 =? 0) with true. cbv iota. lia.
  - destruct (N.eqb_spec e 0) as [E0|N0].
    + destruct (N.eqb_spec m 0) as [M0|MN0].
      * (* zero *)
        assert (F : 0 < 2^11 /\ 0 < 2^52) by (cbn; lia). destruct F as [F1 F2].
        destruct (fields s 0 0 Hs F1 F2) as (G1 & G2 & G3). rewrite N.mul_0_l, !N.add_0_r in *.
        unfold f32_of_f64. rewrite G1, G2.
        change (0 =? 2047) with false. change (0 <? 840) with true. cbv iota. lia.
      * (* subnormal float32: normal float64 *)
        set (k := N.log2 m).
        assert (Hmpos : 0 < m) by lia.
        assert (Hk : k <= 22).
        { assert (k < 23); [|lia]. apply N.log2_lt_pow2; assumption. }
        destruct (N.log2_spec m Hmpos) as [Hlo Hhi]. fold k in Hlo, Hhi.
        assert (Hk52 : k <= 52) by lia.
        pose proof (pow_split k Hk52) as Hq.
        set (q := 2^(52 - k)) in *.
        assert (Hqpos : 0 < q) by (unfold q; apply N.neq_0_lt_0, N.pow_nonzero; lia).
        rewrite N.pow_succ_r' in Hhi.
        assert (Hnp1 : 2^52 <= m * q) by (rewrite <- Hq; apply N.mul_le_mono_r; assumption).
        assert (Hnp2 : m * q < 2 * 2^52).
        { rewrite <- Hq. replace (2 * (2^k * q)) with ((2 * 2^k) * q) by lia. apply N.mul_lt_mono_pos_r; assumption. }
        assert (F1 : k + 874 < 2^11) by (change (2^11) with 2048; lia).
        assert (F2 : m * q - 2^52 < 2^52) by lia.
        destruct (fields s (k + 874) (m * q - 2^52) Hs F1 F2) as (G1 & G2 & G3).
        unfold f32_of_f64. cbv zeta. rewrite G1, G2, G3.
        assert (k + 874 =? 2047 = false) as -> by lia.
        assert (k + 874 <? 840 = false) as -> by lia.
        replace (k + 874 - 897) with 0 by lia.
        replace (0 + 926 - (k + 874)) with (52 - k) by lia.
        replace (2^52 + (m * q - 2^52)) with (m * q) by lia.
        rewrite (round_exact (m * q) (52 - k) m); [|lia|reflexivity].
        change (2^23) with 8388608 in *. change (2^31) with 2147483648 in *.
        assert (255 * 8388608 <=? 0 * 8388608 + m = false) as -> by lia. lia.
    + (* normal *)
      assert (F1 : e + 896 < 2^11) by (change (2^11) with 2048; lia).
      assert (F2 : m * 2^29 < 2^52) by (change (2^29) with 536870912; change (2^52) with 4503599627370496; change (2^23) with 8388608 in Hm; lia).
      destruct (fields s (e + 896) (m * 2^29) Hs F1 F2) as (G1 & G2 & G3).
      unfold f32_of_f64. cbv zeta. rewrite G1, G2, G3.
      assert (e + 896 =? 2047 = false) as -> by lia.
      assert (e + 896 <? 840 = false) as -> by lia.
      replace (e + 896 - 897) with (e - 1) by lia.
      replace (e - 1 + 926 - (e + 896)) with 29 by lia.
      rewrite (round_exact (2^52 + m * 2^29) 29 (2^23 + m)); [|lia|].
      * change (2^23) with 8388608 in *. change (2^31) with 2147483648 in *.
        assert (255 * 8388608 <=? (e - 1) * 8388608 + (8388608 + m) = false) as -> by lia. lia.
      * change (2^52) with (2^23 * 2^29). lia.
Qed.
