(* C10: the conversion hypothesis is discharged (Codec/Conv.v) and the two
   main theorems are restated without it. *)
From Verif Require Import Base.Bytes Codec.Model Codec.Proofs Codec.DiffMerge Codec.Conv.
Local Open Scope N_scope.

Theorem conv_exact_holds : conv_exact.
Proof. repeat split; [apply int_exact|apply uint_exact|apply uint_exact|apply f32_exact]; assumption. Qed.

Theorem roundtrip_final ty c :
  wf_ty ty = true -> wfb ty c = true ->
  exists n, encode ty c = Ok n /\ decode ty n = Ok c.
Proof. apply (roundtrip conv_exact_holds). Qed.

Theorem diff_merge_final ty a b :
  wf_ty ty = true -> wfzb ty a = true -> wfzb ty b = true -> nonempty (c_id a) = true ->
  diffs_small ty (c_vals a) (c_vals b) = true ->
  exists n a' ps, encode ty a = Ok n /\ decode ty n = Ok a' /\ diff ty a b = Ok ps /\
                  merge_points ty (c_id a) ps a' = Ok (expected_merge ty a b).
Proof. apply (diff_merge_after_roundtrip conv_exact_holds). Qed.
