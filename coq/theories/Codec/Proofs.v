(* C10: typed configuration survives Encode/Decode and Diff/Merge.
   Theorems about Codec/Model.v.  The exactness of the bit-level number
   conversions is the hypothesis [conv_exact] of the sections below; it is
   proved in Codec/Conv.v and discharged in Codec/Main.v. *)
From Coq Require Import ZifyN ZifyNat ZifyBool.
From Verif Require Import Base.Bytes Base.Val Codec.Model Codec.Basics Codec.Total.
Local Open Scope N_scope.
Ltac Zify.zify_post_hook ::= Z.div_mod_to_equations.
Arguments itoa : simpl never.
Arguments f64_of_Z : simpl never.
Arguments f64_of_f32 : simpl never.
Arguments f32_of_f64 : simpl never.
Arguments f64_to_int64 : simpl never.
Arguments f64_to_uint64 : simpl never.

(* what Encode followed by Decode needs from the hardware conversions:
   float64(int) and back is exact within +/-(2^53-1); float64(float32) and
   back is the identity except on NaN *)
Definition conv_exact : Prop :=
  (forall z, (- max_safe <= z <= max_safe)%Z -> f64_to_int64 (f64_of_Z z) = z) /\
  (forall z, (0 <= z <= max_safe)%Z -> f64_lt0 (f64_of_Z z) = false /\ f64_to_uint64 (f64_of_Z z) = z) /\
  (forall b, b < 2^32 -> f32_is_nan b = false -> f32_of_f64 (f64_of_f32 b) = b).

(* ------------------------------------------------------------------ *)
(* generic list facts                                                   *)
(* ------------------------------------------------------------------ *)
Lemma set_nth_app {A} (pre : list A) x y rest :
  set_nth (length pre) y (pre ++ x :: rest) = pre ++ y :: rest.
Proof. induction pre as [|h pre IH]; cbn; [reflexivity|]. rewrite IH. reflexivity. Qed.

Lemma firstn_length_app {A} (l r : list A) : firstn (length l) (l ++ r) = l.
Proof. induction l as [|h l IH]; cbn; [reflexivity|]. rewrite IH. reflexivity. Qed.

Lemma repeat_snoc {A} (x : A) n : repeat x n ++ [x] = x :: repeat x n.
Proof. induction n as [|n IH]; cbn; [reflexivity|]. rewrite IH. reflexivity. Qed.

Lemma forallb_Forall {A} (f : A -> bool) l : forallb f l = true <-> Forall (fun x => f x = true) l.
Proof.
  induction l as [|x l IH]; cbn; [split; [constructor|reflexivity]|].
  rewrite andb_true_iff, IH. split; [intros [H1 H2]; constructor; assumption|intros H; inversion H; auto].
Qed.

(* ------------------------------------------------------------------ *)
(* primitives                                                           *)
(* ------------------------------------------------------------------ *)
Lemma live_mkpt t k vt : live (mkpt t k vt) = true.
Proof. reflexivity. Qed.
Lemma live_tombpt t k : live (tombpt t k) = false.
Proof. reflexivity. Qed.

Lemma wf_prim_enc pr v : wf_prim pr v = true -> exists vt, enc_pval v = Some vt.
Proof.
  unfold wf_prim. intros H. apply andb_true_iff in H. destruct H as [_ H].
  destruct v; cbn [enc_pval]; eauto.
  rewrite H. eauto.
Qed.

Lemma wfz_wf pr v : wfz_prim pr v = true -> wf_prim pr v = true.
Proof. unfold wfz_prim. intros H. apply andb_true_iff in H. tauto. Qed.

Section Conv.
Hypothesis Hconv : conv_exact.

(* setVal undoes pointFromPrimitive *)
Lemma prim_rt pr v vt t k :
  wf_prim pr v = true -> enc_pval v = Some vt -> set_prim pr (mkpt t k vt) = Some v.
Proof.
  destruct Hconv as (Hi & Hu & Hf).
  unfold wf_prim. intros H E. apply andb_true_iff in H. destruct H as [Ht Hw].
  destruct pr, v; cbn [has_prim] in Ht; try discriminate;
    cbn [enc_pval] in E; cbn [set_prim mkpt p_value p_text].
  - inversion E; subst. cbn [fst]. destruct b; reflexivity.
  - rewrite Hw in E. inversion E; subst. cbn [fst].
    unfold max_safe in *. rewrite Hi by lia. rewrite Ht. reflexivity.
  - rewrite Hw in E. inversion E; subst. cbn [fst].
    unfold uint_fits in Ht. unfold max_safe in *.
    destruct (Hu z) as [H1 H2]; [lia|]. rewrite H1, H2.
    unfold uint_fits. rewrite Ht. reflexivity.
  - inversion E; subst. cbn [fst]. rewrite Hf; [reflexivity| |].
    + apply N.ltb_lt. assumption.
    + apply negb_true_iff. assumption.
  - inversion E; subst. reflexivity.
  - inversion E; subst. reflexivity.
Qed.

End Conv.

(* Go's == on well-formed values without negative zero is equality *)
Lemma goeq_eq pr x y :
  wfz_prim pr x = true -> wfz_prim pr y = true -> pval_goeq x y = true -> x = y.
Proof.
  unfold wfz_prim, wf_prim. intros Hx Hy.
  repeat (apply andb_true_iff in Hx; destruct Hx as [Hx ?]).
  repeat (apply andb_true_iff in Hy; destruct Hy as [Hy ?]).
  destruct pr, x; cbn [has_prim] in Hx; try discriminate;
  destruct y; cbn [has_prim] in Hy; try discriminate; cbn [pval_goeq pval_eqb]; intros E.
  - f_equal. apply eqb_prop. assumption.
  - f_equal. lia.
  - f_equal. lia.
  - f_equal. unfold f32_eq, f32_is_zero in E.
    repeat match goal with H : negb _ = true |- _ => apply negb_true_iff in H end.
    rewrite H0, H2 in E. cbn in E. lia.
  - f_equal. unfold f64_eq, f64_is_zero in E.
    repeat match goal with H : negb _ = true |- _ => apply negb_true_iff in H end.
    rewrite H0, H2 in E. cbn in E. lia.
  - f_equal. apply bytes_eqb_eq. assumption.
Qed.

(* ------------------------------------------------------------------ *)
(* KeyMaxInt                                                            *)
(* ------------------------------------------------------------------ *)
Lemma km_step_dead m p : live p = false -> km_step m p = m.
Proof. unfold km_step. intros ->. destruct (key_index (p_key p)); reflexivity. Qed.

Lemma km_step_live m p i :
  live p = true -> key_index (p_key p) = Some i -> km_step m p = Z.max m (Z.of_N i).
Proof.
  unfold km_step. intros -> ->. cbn. destruct (Z.ltb_spec m (Z.of_N i)); lia.
Qed.

Lemma km_fold_le g M : forall m,
  (m <= M)%Z ->
  (forall p i, In p g -> live p = true -> key_index (p_key p) = Some i -> (Z.of_N i <= M)%Z) ->
  (fold_left km_step g m <= M)%Z.
Proof.
  induction g as [|p g IH]; intros m Hm H; cbn; [assumption|].
  apply IH.
  - unfold km_step. destruct (key_index (p_key p)) as [i|] eqn:E; [|assumption].
    destruct (live p) eqn:L; cbn; [|assumption].
    destruct (Z.ltb_spec m (Z.of_N i)); [|assumption]. eapply H; [left; reflexivity|eassumption|eassumption].
  - intros q i Hq. apply H. right. assumption.
Qed.

Lemma km_fold_dead g : forall m, Forall (fun p => live p = false) g -> fold_left km_step g m = m.
Proof.
  induction g as [|p g IH]; intros m H; cbn; [reflexivity|].
  inversion H; subst. rewrite km_step_dead by assumption. apply IH. assumption.
Qed.

(* ------------------------------------------------------------------ *)
(* the slice / array loop                                               *)
(* ------------------------------------------------------------------ *)
Lemma list_loop_app pr n g1 : forall g2 l d,
  list_loop pr n (g1 ++ g2) l d =
  match list_loop pr n g1 l d with
  | LOk l' d' => list_loop pr n g2 l' d'
  | r => r
  end.
Proof.
  induction g1 as [|p g1 IH]; intros g2 l d; cbn [app list_loop]; [reflexivity|].
  destruct (live p).
  - destruct (idx_of p <? n); [|reflexivity]. destruct (set_prim pr p); [apply IH|reflexivity].
  - destruct (idx_of p <? n); apply IH.
Qed.

Lemma idx_of_itoa t i vt : i < 2^63 -> idx_of (mkpt t (itoa i) vt) = i.
Proof. intros H. unfold idx_of. cbn [mkpt p_key]. rewrite key_index_itoa by assumption. reflexivity. Qed.

Lemma idx_of_tomb t i : i < 2^63 -> idx_of (tombpt t (itoa i)) = i.
Proof. intros H. unfold idx_of. cbn [tombpt p_key]. rewrite key_index_itoa by assumption. reflexivity. Qed.

Section Conv2.
Hypothesis Hconv : conv_exact.

(* one live point with key i written into position i *)
Lemma list_loop_step pr n t i v vt pre x rest g d :
  len pre = i -> i < n -> n < 2^63 ->
  wf_prim pr v = true -> enc_pval v = Some vt ->
  list_loop pr n (mkpt t (itoa i) vt :: g) (pre ++ x :: rest) d
  = list_loop pr n g (pre ++ v :: rest) d.
Proof.
  intros Hp Hi Hn Hw He. cbn [list_loop]. rewrite live_mkpt, idx_of_itoa by lia.
  apply N.ltb_lt in Hi. rewrite Hi. rewrite (prim_rt Hconv pr v vt t (itoa i) Hw He).
  unfold len in Hp. replace (N.to_nat i) with (length pre) by lia.
  rewrite set_nth_app. reflexivity.
Qed.

(* Encode's points of a slice written over any content of the same length *)
Lemma loop_enc_list pr n t : forall vs pre junk i ps d,
  len pre = i -> length junk = length vs -> i + len vs <= n -> n < 2^63 ->
  Forall (fun v => wf_prim pr v = true) vs ->
  enc_list t i vs = Some ps ->
  list_loop pr n ps (pre ++ junk) d = LOk (pre ++ vs) d.
Proof.
  induction vs as [|v vs IH]; intros pre junk i ps d Hp Hj Hb Hn Hw He.
  - destruct junk; [|discriminate]. cbn [enc_list] in He. inversion He. reflexivity.
  - destruct junk as [|x junk]; [discriminate|]. cbn [enc_list] in He.
    inversion Hw as [|? ? Hv Hvs]; subst.
    destruct (enc_pval v) as [vt|] eqn:Ev; [|discriminate].
    destruct (enc_list t (len pre + 1) vs) as [r|] eqn:Er; [|discriminate].
    inversion He; subst ps. unfold len in Hb. cbn [length] in Hb.
    rewrite (list_loop_step pr n t (len pre) v vt) by (try reflexivity; try assumption; unfold len; lia).
    replace (pre ++ v :: junk) with ((pre ++ [v]) ++ junk) by (rewrite <- app_assoc; reflexivity).
    replace (pre ++ v :: vs) with ((pre ++ [v]) ++ vs) by (rewrite <- app_assoc; reflexivity).
    apply (IH (pre ++ [v]) junk (len pre + 1)); try assumption.
    + unfold len. rewrite app_length. cbn. lia.
    + cbn in Hj. lia.
    + unfold len. lia.
Qed.

End Conv2.

Lemma enc_list_keys t : forall vs i ps,
  enc_list t i vs = Some ps ->
  Forall (fun p => exists j, i <= j < i + len vs /\ p_key p = itoa j /\ live p = true /\ p_type p = t) ps.
Proof.
  induction vs as [|v vs IH]; intros i ps He; cbn [enc_list] in He.
  - inversion He. constructor.
  - destruct (enc_pval v) as [vt|]; [|discriminate].
    destruct (enc_list t (i + 1) vs) as [r|] eqn:Er; [|discriminate]. inversion He; subst.
    constructor.
    + exists i. unfold len. cbn [length]. split; [lia|]. repeat split.
    + eapply Forall_impl; [|apply (IH _ _ Er)].
      intros p (j & Hj & Hk). exists j. unfold len in *. cbn [length]. split; [lia|assumption].
Qed.

Lemma keys_not_bad g lo hi :
  hi < 2^63 ->
  Forall (fun p => exists j, lo <= j < hi /\ p_key p = itoa j) g -> existsb key_bad g = false.
Proof.
  intros Hh H. induction H as [|p g (j & Hj & Hk) _ IH]; cbn; [reflexivity|].
  rewrite IH, orb_false_r. unfold key_bad. rewrite Hk, key_index_itoa by lia. reflexivity.
Qed.

Lemma enc_list_length t : forall vs i ps, enc_list t i vs = Some ps -> length ps = length vs.
Proof.
  induction vs as [|v vs IH]; intros i ps He; cbn [enc_list] in He.
  - inversion He. reflexivity.
  - destruct (enc_pval v); [|discriminate]. destruct (enc_list t (i + 1) vs) eqn:Er; [|discriminate].
    inversion He; subst. cbn. f_equal. eapply IH; eassumption.
Qed.

(* KeyMaxInt of the points of a whole slice *)
Lemma km_enc_list t : forall vs i ps m,
  i + len vs < 2^63 -> (Z.of_N i - 1 <= m)%Z ->
  enc_list t i vs = Some ps ->
  fold_left km_step ps m = Z.max m (Z.of_N i + Z.of_nat (length vs) - 1)%Z.
Proof.
  induction vs as [|v vs IH]; intros i ps m Hb Hm He; cbn [enc_list] in He.
  - inversion He. cbn. lia.
  - destruct (enc_pval v) as [vt|]; [|discriminate].
    destruct (enc_list t (i + 1) vs) as [r|] eqn:Er; [|discriminate]. inversion He; subst.
    unfold len in Hb. cbn [length] in Hb. cbn [fold_left].
    rewrite (km_step_live m _ i); [|reflexivity|cbn [mkpt p_key]; apply key_index_itoa; lia].
    rewrite (IH (i + 1) r); [cbn [length]; lia|unfold len; lia|lia|assumption].
Qed.

Lemma trim_len_nil n : trim_len [] n = n.
Proof. destruct n; reflexivity. Qed.

Lemma key_max_enc_list t vs ps :
  (length vs <= max_size)%nat -> enc_list t 0 vs = Some ps ->
  key_max ps = (Z.of_nat (length vs) - 1)%Z.
Proof.
  intros Hl He. rewrite key_max_fold. rewrite (km_enc_list t vs 0 ps (-1)%Z); try assumption; try lia.
  unfold len, max_size in *. lia.
Qed.

Section Conv3.
Hypothesis Hconv : conv_exact.

(* decoding the points of a whole slice / array into the zero value (or into
   any array content) gives the elements back *)
Lemma set_list_enc pr t vs ps arr l0 :
  vs <> [] -> (length vs <= max_size)%nat ->
  Forall (fun v => wf_prim pr v = true) vs ->
  enc_list t 0 vs = Some ps ->
  (arr = None /\ l0 = []) \/ (arr = Some (length vs) /\ length l0 = length vs) ->
  set_list arr pr ps l0 = Ok vs.
Proof.
  intros Hne Hl Hw He Harr. unfold set_list.
  assert (Hbad : existsb key_bad ps = false).
  { apply (keys_not_bad ps 0 (0 + len vs)); [unfold len, max_size in *; lia|].
    eapply Forall_impl; [|apply (enc_list_keys t vs 0 ps He)].
    intros p (j & Hj & Hk & _). exists j. split; assumption. }
  rewrite Hbad, (key_max_enc_list t vs ps Hl He).
  assert (Hpos : (0 < length vs)%nat) by (destruct vs; [contradiction|cbn; lia]).
  unfold max_size in *.
  destruct (Z.ltb_spec (Z.of_nat 1000) (Z.of_nat (length vs) - 1)); [lia|].
  destruct Harr as [[-> ->]|[-> Hl0]].
  - cbn [length]. destruct (Z.ltb_spec (Z.of_nat 0 - 1) (Z.of_nat (length vs) - 1)); [|lia].
    replace (Z.to_nat (Z.of_nat (length vs) - 1 + 1) - 0)%nat with (length vs) by lia.
    cbn [app].
    rewrite (loop_enc_list Hconv pr _ t vs [] (repeat (zero_prim pr) (length vs)) 0 ps []);
      try assumption; try reflexivity.
    + cbn [app]. rewrite trim_len_nil, firstn_all. reflexivity.
    + apply repeat_length.
    + unfold len. rewrite repeat_length. lia.
    + unfold len. rewrite repeat_length. lia.
  - destruct (Z.ltb_spec (Z.of_nat (length vs) - 1) (Z.of_nat (length vs) - 1)); [lia|].
    rewrite (loop_enc_list Hconv pr _ t vs [] l0 0 ps []); try assumption; try reflexivity.
    + unfold len. lia.
    + unfold len. lia.
Qed.

End Conv3.

(* ------------------------------------------------------------------ *)
(* maps: round trip                                                     *)
(* ------------------------------------------------------------------ *)
Lemma m_insert_last k v : forall m,
  Forall (fun kv => bytes_ltb (fst kv) k = true) m -> m_insert k v m = m ++ [(k, v)].
Proof.
  induction m as [|[k1 v1] m IH]; intros H; cbn; [reflexivity|].
  inversion H as [|? ? H1 H2]; subst. cbn in H1.
  rewrite bytes_eqb_sym, (bytes_ltb_neq _ _ H1), (bytes_ltb_asym _ _ H1). rewrite IH by assumption. reflexivity.
Qed.

Lemma sorted_app_lt : forall m1 k v m2,
  sorted_keys (m1 ++ (k, v) :: m2) = true -> Forall (fun kv => bytes_ltb (fst kv) k = true) m1.
Proof.
  induction m1 as [|[k1 v1] m1 IH]; intros k v m2 H; [constructor|].
  cbn [app] in H. apply sorted_cons in H. destruct H as [Hg Hs].
  constructor; [|eapply IH; eassumption].
  unfold keys_gt in Hg. rewrite Forall_forall in Hg. apply (Hg (k, v)). apply in_or_app. right. left. reflexivity.
Qed.

Lemma enc_map_length t : forall m ps, enc_map t m = Some ps -> length ps = length m.
Proof.
  induction m as [|[k v] m IH]; intros ps He; cbn [enc_map] in He.
  - inversion He. reflexivity.
  - destruct (enc_pval v); [|discriminate]. destruct (enc_map t m) eqn:Er; [|discriminate].
    inversion He; subst. cbn. f_equal. apply IH. reflexivity.
Qed.

Section Conv4.
Hypothesis Hconv : conv_exact.

Lemma map_loop_enc pr t : forall m2 m1 ps,
  sorted_keys (m1 ++ m2) = true ->
  Forall (fun kv => nonempty (fst kv) = true /\ wf_prim pr (snd kv) = true) m2 ->
  enc_map t m2 = Some ps ->
  map_loop pr ps m1 = Ok (m1 ++ m2).
Proof.
  induction m2 as [|[k v] m2 IH]; intros m1 ps Hs Hw He; cbn [enc_map] in He.
  - inversion He. rewrite app_nil_r. reflexivity.
  - destruct (enc_pval v) as [vt|] eqn:Ev; [|discriminate].
    destruct (enc_map t m2) as [r|] eqn:Er; [|discriminate]. inversion He; subst ps.
    inversion Hw as [|? ? [Hk Hv] Hw']; subst. cbn [fst snd] in *.
    cbn [map_loop]. rewrite live_mkpt. cbn [mkpt p_key]. rewrite (norm_key_nonempty k Hk).
    rewrite (prim_rt Hconv pr v vt t k Hv Ev).
    rewrite (m_insert_last k v m1) by (eapply sorted_app_lt; eassumption).
    replace (m1 ++ (k, v) :: m2) with ((m1 ++ [(k, v)]) ++ m2) in * by (rewrite <- app_assoc; reflexivity).
    apply IH; try assumption; reflexivity.
Qed.

End Conv4.

(* ------------------------------------------------------------------ *)
(* flat structs                                                         *)
(* ------------------------------------------------------------------ *)
Lemma find_last_app k g1 : forall g2,
  find_last k (g1 ++ g2) = match find_last k g2 with Some q => Some q | None => find_last k g1 end.
Proof.
  induction g1 as [|p g1 IH]; intros g2; cbn [app find_last].
  - destruct (find_last k g2); reflexivity.
  - rewrite IH. destruct (find_last k g2); reflexivity.
Qed.

Lemma find_last_none k g : (forall p, In p g -> p_key p <> k) -> find_last k g = None.
Proof.
  induction g as [|p g IH]; intros H; cbn; [reflexivity|].
  rewrite IH by (intros q Hq; apply H; right; assumption).
  assert (bytes_eqb (p_key p) k = false) as ->; [|reflexivity].
  apply bytes_eqb_neq. apply H. left. reflexivity.
Qed.

Lemma mem_key_In k l : mem_key k l = true <-> In k l.
Proof.
  unfold mem_key. rewrite existsb_exists. split.
  - intros (x & Hx & E). apply bytes_eqb_eq in E. subst. assumption.
  - intros H. exists k. split; [assumption|apply bytes_eqb_refl].
Qed.

Lemma mem_key_false k l : mem_key k l = false <-> ~ In k l.
Proof.
  rewrite <- mem_key_In. destruct (mem_key k l); split; try congruence; try tauto.
Qed.

(* what struct_loop computes, field by field *)
Inductive sl_rel (g : list point) : list (bytes * prim) -> list pval -> list pval -> Prop :=
| sl_nil cur : sl_rel g [] cur cur
| sl_cons k pr fs c cur v l :
    match find_last k g with
    | None => v = c
    | Some p => if live p then set_prim pr p = Some v else v = zero_prim pr
    end ->
    sl_rel g fs cur l -> sl_rel g ((k, pr) :: fs) (c :: cur) (v :: l).

Lemma struct_loop_rel g fs cur l : sl_rel g fs cur l -> struct_loop fs cur g = Ok l.
Proof.
  induction 1 as [cur|k pr fs c cur v l Hf _ IH]; cbn [struct_loop].
  - destruct cur; reflexivity.
  - destruct (find_last k g) as [p|].
    + destruct (live p).
      * rewrite Hf, IH. reflexivity.
      * rewrite IH. subst. reflexivity.
    + rewrite IH. subst. reflexivity.
Qed.

Lemma enc_struct_keys t : forall fs l ps,
  enc_struct t fs l = Some ps -> forall p, In p ps -> In (p_key p) (map fst fs).
Proof.
  induction fs as [|[k pr] fs IH]; intros l ps He p Hp; cbn [enc_struct] in He.
  - inversion He; subst. destruct Hp.
  - destruct l as [|v l]; [inversion He; subst; destruct Hp|].
    destruct (enc_pval v); [|discriminate]. destruct (enc_struct t fs l) as [r|] eqn:Er; [|discriminate].
    inversion He; subst. destruct Hp as [<-|Hp]; [left; reflexivity|right; eapply IH; eassumption].
Qed.

Section Conv5.
Hypothesis Hconv : conv_exact.

Lemma sl_rel_enc t : forall fs l cur ps front,
  enc_struct t fs l = Some ps ->
  wf_struct wf_prim fs l = true -> distinct (map fst fs) = true ->
  length cur = length fs ->
  sl_rel (front ++ ps) fs cur l.
Proof.
  induction fs as [|[k pr] fs IH]; intros l cur ps front He Hw Hd Hc.
  - destruct l; [|discriminate]. destruct cur; [|discriminate]. constructor.
  - destruct l as [|v l]; [discriminate|]. destruct cur as [|c cur]; [discriminate|].
    cbn [enc_struct] in He. cbn [wf_struct] in Hw. apply andb_true_iff in Hw. destruct Hw as [Hv Hw].
    cbn [map fst distinct] in Hd. apply andb_true_iff in Hd. destruct Hd as [Hk Hd].
    apply negb_true_iff, mem_key_false in Hk.
    destruct (enc_pval v) as [vt|] eqn:Ev; [|discriminate].
    destruct (enc_struct t fs l) as [r|] eqn:Er; [|discriminate]. inversion He; subst ps.
    constructor.
    + rewrite find_last_app. cbn [find_last].
      rewrite (find_last_none k r).
      * cbn [mkpt p_key]. rewrite bytes_eqb_refl. rewrite live_mkpt. apply (prim_rt Hconv); assumption.
      * intros q Hq E. apply Hk. rewrite <- E. eapply enc_struct_keys; eassumption.
    + replace (front ++ mkpt t k vt :: r) with ((front ++ [mkpt t k vt]) ++ r) by (rewrite <- app_assoc; reflexivity).
      apply IH; try assumption. cbn in Hc. lia.
Qed.

End Conv5.

(* validFields of the pointer-to-struct case *)
Definition vf_step (s : list bytes) (p : point) : list bytes :=
  if live p then (if mem_key (p_key p) s then s else p_key p :: s)
  else filter (fun k => negb (bytes_eqb k (p_key p))) s.

Lemma valid_fields_fold fs g : valid_fields fs g = fold_left vf_step g (map fst fs).
Proof. reflexivity. Qed.

Lemma vf_live g : forall s, Forall (fun p => live p = true) g -> s <> [] -> fold_left vf_step g s <> [].
Proof.
  induction g as [|p g IH]; intros s H Hs; cbn; [assumption|].
  inversion H; subst. apply IH; [assumption|].
  unfold vf_step. rewrite H2. destruct (mem_key (p_key p) s); [assumption|discriminate].
Qed.

Lemma filter_filter {A} (f g : A -> bool) l : filter f (filter g l) = filter (fun x => g x && f x) l.
Proof.
  induction l as [|x l IH]; cbn; [reflexivity|].
  destruct (g x); cbn; [destruct (f x); rewrite IH; reflexivity|assumption].
Qed.

Lemma vf_tombs t ks : forall s,
  fold_left vf_step (map (fun k => tombpt t k) ks) s = filter (fun k => negb (mem_key k ks)) s.
Proof.
  induction ks as [|k1 ks IH]; intros s; cbn [map fold_left].
  - cbn. induction s as [|x s IHs]; cbn; [reflexivity|]. rewrite <- IHs. reflexivity.
  - rewrite IH. unfold vf_step. rewrite live_tombpt. cbn [tombpt p_key].
    rewrite filter_filter. apply filter_ext. intros k. cbn. rewrite negb_orb. reflexivity.
Qed.

Lemma vf_all_tombs t ks : fold_left vf_step (map (fun k => tombpt t k) ks) ks = [].
Proof.
  rewrite vf_tombs. apply filter_none. intros k Hk. apply negb_false_iff, mem_key_In. assumption.
Qed.

Lemma enc_struct_live t : forall fs l ps,
  enc_struct t fs l = Some ps -> Forall (fun p => live p = true) ps.
Proof.
  induction fs as [|[k pr] fs IH]; intros l ps He; cbn [enc_struct] in He.
  - inversion He. constructor.
  - destruct l as [|v l]; [inversion He; constructor|].
    destruct (enc_pval v); [|discriminate]. destruct (enc_struct t fs l) as [r|] eqn:Er; [|discriminate].
    inversion He; subst. constructor; [reflexivity|eapply IH; eassumption].
Qed.

Lemma wf_struct_length wp : forall fs l, wf_struct wp fs l = true -> length l = length fs.
Proof.
  induction fs as [|[k pr] fs IH]; intros [|v l] H; cbn in *; try discriminate; try reflexivity.
  apply andb_true_iff in H. destruct H as [_ H]. f_equal. apply IH. assumption.
Qed.

Lemma ptrstruct_nil_rt t fs :
  fs <> [] ->
  match map (fun kp : bytes * prim => tombpt t (fst kp)) fs with
  | [] => Ok (zero_kind (KPtrStruct fs))
  | ps => set_value (KPtrStruct fs) ps (zero_kind (KPtrStruct fs))
  end = Ok (FPtrStruct None).
Proof.
  intros Hne.
  assert (HL : map (fun kp : bytes * prim => tombpt t (fst kp)) fs = map (fun k => tombpt t k) (map fst fs))
    by (rewrite map_map; reflexivity).
  destruct (map (fun kp : bytes * prim => tombpt t (fst kp)) fs) as [|p ps] eqn:E.
  - apply map_eq_nil in E. contradiction.
  - cbn [set_value zero_kind]. rewrite valid_fields_fold, HL, vf_all_tombs. reflexivity.
Qed.

(* ------------------------------------------------------------------ *)
(* one field: Decode of Encode                                          *)
(* ------------------------------------------------------------------ *)
Section FieldRT.
Hypothesis Hconv : conv_exact.

Lemma field_rt t k v ps :
  kind_ok k = true -> wf_fval wf_prim k v = true -> enc_field t k v = Some ps ->
  match ps with [] => Ok (zero_kind k) | _ => set_value k ps (zero_kind k) end = Ok v.
Proof.
  intros Hk Hw He.
  destruct k as [pr|pr|pr|n pr|pr|fs|fs], v as [x|o|l|m|l|o]; cbn [wf_fval] in Hw; try discriminate;
    cbn [enc_field] in He.
  - (* scalar *)
    destruct (enc_pval x) as [vt|] eqn:Ev; [|discriminate]. inversion He; subst ps.
    cbn [set_value zero_kind scalar_loop]. rewrite live_mkpt, (prim_rt Hconv pr x vt t [] Hw Ev). reflexivity.
  - (* pointer *)
    destruct o as [x|].
    + destruct (enc_pval x) as [vt|] eqn:Ev; [|discriminate]. inversion He; subst ps.
      cbn [set_value zero_kind ptr_loop]. rewrite live_mkpt, (prim_rt Hconv pr x vt t [] Hw Ev). reflexivity.
    + inversion He; subst ps. cbn [set_value zero_kind ptr_loop]. rewrite live_tombpt. reflexivity.
  - (* slice *)
    apply andb_true_iff in Hw. destruct Hw as [Hl Hf]. apply Nat.leb_le in Hl. apply forallb_Forall in Hf.
    destruct (Nat.ltb_spec max_size (length l)); [lia|].
    destruct l as [|x l].
    + cbn in He. inversion He. reflexivity.
    + pose proof (enc_list_length t _ _ _ He) as Hlen. destruct ps as [|p ps]; [discriminate|].
      cbn [set_value zero_kind].
      rewrite (set_list_enc Hconv pr t (x :: l) (p :: ps) None []); try assumption; try reflexivity; try discriminate.
      left. split; reflexivity.
  - (* array *)
    apply andb_true_iff in Hw. destruct Hw as [Hl Hf]. apply Nat.eqb_eq in Hl. apply forallb_Forall in Hf.
    cbn [kind_ok] in Hk. apply andb_true_iff in Hk. destruct Hk as [_ Hn]. apply Nat.leb_le in Hn.
    destruct (Nat.ltb_spec max_size (length l)); [lia|].
    destruct l as [|x l].
    + cbn in He. inversion He. cbn in Hl. subst n. reflexivity.
    + pose proof (enc_list_length t _ _ _ He) as Hlen. destruct ps as [|p ps]; [discriminate|].
      cbn [set_value zero_kind]. rewrite repeat_length, Nat.eqb_refl.
      rewrite (set_list_enc Hconv pr t (x :: l) (p :: ps) (Some n) (repeat (zero_prim pr) n)); try assumption; try reflexivity; try discriminate.
      right. rewrite repeat_length. split; [f_equal; lia|lia].
  - (* map *)
    apply andb_true_iff in Hw. destruct Hw as [Hw Hf]. apply andb_true_iff in Hw. destruct Hw as [Hl Hs].
    apply Nat.leb_le in Hl.
    destruct (Nat.ltb_spec max_size (length m)); [lia|].
    pose proof (enc_map_length t _ _ He) as Hlen.
    destruct m as [|kv m].
    + cbn in He. inversion He. reflexivity.
    + destruct ps as [|p ps]; [discriminate|]. cbn [set_value zero_kind]. unfold set_map.
      destruct (Nat.ltb_spec max_size (length (p :: ps))); [lia|].
      rewrite (map_loop_enc Hconv pr t (kv :: m) [] (p :: ps)); try assumption; try reflexivity.
      apply forallb_Forall in Hf. eapply Forall_impl; [|exact Hf].
      intros kv' H'. apply andb_true_iff in H'. exact H'.
  - (* struct *)
    cbn [kind_ok] in Hk. apply andb_true_iff in Hk. destruct Hk as [Hk Hne].
    apply andb_true_iff in Hk. destruct Hk as [_ Hd].
    pose proof (wf_struct_length _ _ _ Hw) as Hlen.
    assert (Hps : struct_loop fs (map (fun kp => zero_prim (snd kp)) fs) ps = Ok l).
    { apply struct_loop_rel. apply (sl_rel_enc Hconv t fs l _ ps []); try assumption. apply map_length. }
    destruct ps as [|p ps].
    + destruct fs as [|[k1 p1] fs]; [discriminate|]. destruct l as [|x l]; [discriminate|].
      cbn [enc_struct] in He. destruct (enc_pval x); [|discriminate].
      destruct (enc_struct t fs l); discriminate.
    + cbn [set_value zero_kind]. rewrite Hps. reflexivity.
  - (* pointer to struct *)
    cbn [kind_ok] in Hk. apply andb_true_iff in Hk. destruct Hk as [Hk Hne].
    apply andb_true_iff in Hk. destruct Hk as [_ Hd].
    destruct fs as [|[k1 p1] fs]; [discriminate|].
    destruct o as [l|].
    + pose proof (wf_struct_length _ _ _ Hw) as Hlen.
      assert (Hps : struct_loop ((k1, p1) :: fs) (map (fun kp => zero_prim (snd kp)) ((k1, p1) :: fs)) ps = Ok l).
      { apply struct_loop_rel. apply (sl_rel_enc Hconv t _ l _ ps []); try assumption. apply map_length. }
      pose proof (enc_struct_live t _ _ _ He) as Hlive.
      destruct ps as [|p ps].
      * destruct l as [|x l]; [discriminate|].
        cbn [enc_struct] in He. destruct (enc_pval x); [|discriminate].
        destruct (enc_struct t fs l); discriminate.
      * cbn [set_value zero_kind]. rewrite valid_fields_fold.
        destruct (fold_left vf_step (p :: ps) (map fst ((k1, p1) :: fs))) eqn:Ev.
        { exfalso. revert Ev. apply vf_live; [assumption|discriminate]. }
        rewrite Hps. reflexivity.
    + inversion He; subst ps. exact (ptrstruct_nil_rt t ((k1, p1) :: fs) ltac:(discriminate)).
Qed.

End FieldRT.

(* ------------------------------------------------------------------ *)
(* all fields: grouping by type separates the fields                    *)
(* ------------------------------------------------------------------ *)
Definition ptypes (ty : cfgty) (e : bool) : list bytes :=
  if e then map f_type (filter f_edge ty) else map f_type (filter (fun f => negb (f_edge f)) ty).

Fixpoint gather (ty : cfgty) (pss : list (list point)) : list point * list point :=
  match ty, pss with
  | f :: ty', ps :: pss' =>
      let (P, E) := gather ty' pss' in
      if f_edge f then (P, ps ++ E) else (ps ++ P, E)
  | _, _ => ([], [])
  end.

Definition all_type (t : bytes) (ps : list point) : Prop := Forall (fun p => p_type p = t) ps.

Inductive fields_ok : cfgty -> list fval -> list (list point) -> list fval -> Prop :=
| fo_nil : fields_ok [] [] [] []
| fo_cons f ty v vs ps pss w ws :
    all_type (f_type f) ps ->
    match ps with [] => Ok v | _ => set_value (f_kind f) ps v end = Ok w ->
    fields_ok ty vs pss ws ->
    fields_ok (f :: ty) (v :: vs) (ps :: pss) (w :: ws).

Lemma grp_all t ps : all_type t ps -> grp t ps = ps.
Proof.
  induction 1 as [|p ps Hp _ IH]; cbn; [reflexivity|].
  rewrite Hp, bytes_eqb_refl. unfold grp in IH. rewrite IH. reflexivity.
Qed.

Lemma grp_none t ps : (forall p, In p ps -> p_type p <> t) -> grp t ps = [].
Proof.
  intros H. apply filter_none. intros p Hp. apply bytes_eqb_neq. apply H. assumption.
Qed.

Lemma grp_app t a b : grp t (a ++ b) = grp t a ++ grp t b.
Proof. apply filter_app. Qed.

Lemma gather_types ty vs pss ws :
  fields_ok ty vs pss ws ->
  (forall p, In p (fst (gather ty pss)) -> In (p_type p) (ptypes ty false)) /\
  (forall p, In p (snd (gather ty pss)) -> In (p_type p) (ptypes ty true)).
Proof.
  induction 1 as [|f ty v vs ps pss w ws Ht _ _ [IH1 IH2]]; cbn [gather].
  - split; intros p [].
  - destruct (gather ty pss) as [P E] eqn:G. cbn [fst snd] in *. unfold ptypes in *. cbn [filter].
    unfold all_type in Ht. rewrite Forall_forall in Ht.
    destruct (f_edge f) eqn:Fe; cbn [negb map fst snd]; split; intros p Hp.
    + apply IH1. assumption.
    + apply in_app_or in Hp. destruct Hp as [Hp|Hp]; [left; symmetry; apply Ht; assumption|right; apply IH2; assumption].
    + apply in_app_or in Hp. destruct Hp as [Hp|Hp]; [left; symmetry; apply Ht; assumption|right; apply IH1; assumption].
    + apply IH2. assumption.
Qed.

Lemma distinct_cons k l : distinct (k :: l) = true -> ~ In k l /\ distinct l = true.
Proof.
  cbn. intros H. apply andb_true_iff in H. destruct H as [H1 H2].
  split; [apply mem_key_false, negb_true_iff; assumption|assumption].
Qed.

Lemma dec_fields_gather ty vs pss ws :
  fields_ok ty vs pss ws ->
  forall P0 E0,
  distinct (ptypes ty false) = true -> distinct (ptypes ty true) = true ->
  (forall p, In p P0 -> ~ In (p_type p) (ptypes ty false)) ->
  (forall p, In p E0 -> ~ In (p_type p) (ptypes ty true)) ->
  dec_fields ty vs (P0 ++ fst (gather ty pss)) (E0 ++ snd (gather ty pss)) = Ok ws.
Proof.
  induction 1 as [|f ty v vs ps pss w ws Ht Hset Hok IH]; intros P0 E0 Dp De HP HE.
  - reflexivity.
  - pose proof (gather_types _ _ _ _ Hok) as [GT1 GT2].
    assert (Hset' : match ps with [] => Ok v | p :: l => set_value (f_kind f) (p :: l) v end = Ok w)
      by (destruct ps; exact Hset).
    cbn [gather]. destruct (gather ty pss) as [P E] eqn:G. cbn [fst snd] in *.
    cbn [dec_fields]. unfold dec_field.
    destruct (f_edge f) eqn:Fe; cbn [fst snd].
    + (* edge field *)
      assert (Dp' : distinct (ptypes ty false) = true) by (unfold ptypes in *; cbn [filter] in Dp; rewrite Fe in Dp; exact Dp).
      assert (De' : ~ In (f_type f) (ptypes ty true) /\ distinct (ptypes ty true) = true).
      { unfold ptypes in *. cbn [filter] in De. rewrite Fe in De. cbn [map] in De. apply distinct_cons. exact De. }
      destruct De' as [Hn De'].
      rewrite !grp_app, (grp_all _ _ Ht).
      rewrite (grp_none (f_type f) E0), (grp_none (f_type f) E).
      * rewrite app_nil_r. cbn [app]. rewrite Hset'. cbn [ocons].
        replace (E0 ++ ps ++ E) with ((E0 ++ ps) ++ E) by (rewrite <- app_assoc; reflexivity).
        rewrite (IH P0 (E0 ++ ps)); try assumption; [reflexivity| |].
        -- intros p Hp. apply HP in Hp. unfold ptypes in *. cbn [filter] in Hp. rewrite Fe in Hp. exact Hp.
        -- intros p Hp. apply in_app_or in Hp. destruct Hp as [Hp|Hp].
           ++ apply HE in Hp. unfold ptypes in *. cbn [filter] in Hp. rewrite Fe in Hp. cbn [map] in Hp.
              intros C. apply Hp. right. exact C.
           ++ unfold all_type in Ht. rewrite Forall_forall in Ht. rewrite (Ht p Hp). exact Hn.
      * intros p Hp E'. apply Hn. rewrite <- E'. apply GT2. assumption.
      * intros p Hp E'. apply (HE p Hp). unfold ptypes. cbn [filter]. rewrite Fe. left. symmetry. assumption.
    + (* point field *)
      assert (De' : distinct (ptypes ty true) = true) by (unfold ptypes in *; cbn [filter] in De; rewrite Fe in De; exact De).
      assert (Dp' : ~ In (f_type f) (ptypes ty false) /\ distinct (ptypes ty false) = true).
      { unfold ptypes in *. cbn [filter] in Dp. rewrite Fe in Dp. cbn [negb map] in Dp. apply distinct_cons. exact Dp. }
      destruct Dp' as [Hn Dp'].
      rewrite !grp_app, (grp_all _ _ Ht).
      rewrite (grp_none (f_type f) P0), (grp_none (f_type f) P).
      * rewrite app_nil_r. cbn [app]. rewrite Hset'. cbn [ocons].
        replace (P0 ++ ps ++ P) with ((P0 ++ ps) ++ P) by (rewrite <- app_assoc; reflexivity).
        rewrite (IH (P0 ++ ps) E0); try assumption; [reflexivity| |].
        -- intros p Hp. apply in_app_or in Hp. destruct Hp as [Hp|Hp].
           ++ apply HP in Hp. unfold ptypes in *. cbn [filter] in Hp. rewrite Fe in Hp. cbn [negb map] in Hp.
              intros C. apply Hp. right. exact C.
           ++ unfold all_type in Ht. rewrite Forall_forall in Ht. rewrite (Ht p Hp). exact Hn.
        -- intros p Hp. apply HE in Hp. unfold ptypes in *. cbn [filter] in Hp. rewrite Fe in Hp. exact Hp.
      * intros p Hp E'. apply Hn. rewrite <- E'. apply GT1. assumption.
      * intros p Hp E'. apply (HP p Hp). unfold ptypes. cbn [filter]. rewrite Fe. left. symmetry. assumption.
Qed.

(* ------------------------------------------------------------------ *)
(* Encode: every point carries its field's type; Encode succeeds on wf  *)
(* ------------------------------------------------------------------ *)
Lemma enc_map_types t : forall m ps, enc_map t m = Some ps -> all_type t ps.
Proof.
  induction m as [|[k v] m IH]; intros ps He; cbn [enc_map] in He.
  - inversion He. constructor.
  - destruct (enc_pval v); [|discriminate]. destruct (enc_map t m) as [r|] eqn:Er; [|discriminate].
    inversion He; subst. constructor; [reflexivity|apply IH; reflexivity].
Qed.

Lemma enc_struct_types t : forall fs l ps, enc_struct t fs l = Some ps -> all_type t ps.
Proof.
  induction fs as [|[k pr] fs IH]; intros l ps He; cbn [enc_struct] in He.
  - inversion He. constructor.
  - destruct l as [|v l]; [inversion He; constructor|].
    destruct (enc_pval v); [|discriminate]. destruct (enc_struct t fs l) as [r|] eqn:Er; [|discriminate].
    inversion He; subst. constructor; [reflexivity|eapply IH; eassumption].
Qed.

Lemma enc_field_types t k v ps : enc_field t k v = Some ps -> all_type t ps.
Proof.
  intros He. destruct k as [pr|pr|pr|n pr|pr|fs|fs], v as [x|o|l|m|l|o]; cbn [enc_field] in He; try discriminate.
  - destruct (enc_pval x); inversion He. repeat constructor.
  - destruct o as [x|]; [destruct (enc_pval x)|]; inversion He; repeat constructor.
  - destruct (max_size <? length l)%nat; [discriminate|].
    eapply Forall_impl; [|apply (enc_list_keys t l 0 ps He)]. intros q (j & _ & _ & _ & H). exact H.
  - destruct (max_size <? length l)%nat; [discriminate|].
    eapply Forall_impl; [|apply (enc_list_keys t l 0 ps He)]. intros q (j & _ & _ & _ & H). exact H.
  - destruct (max_size <? length m)%nat; [discriminate|]. eapply enc_map_types; eassumption.
  - eapply enc_struct_types; eassumption.
  - destruct o as [l|]; [eapply enc_struct_types; eassumption|].
    inversion He. unfold all_type. rewrite Forall_forall. intros q Hq. apply in_map_iff in Hq.
    destruct Hq as (kp & <- & _). reflexivity.
Qed.

Lemma enc_list_ok pr t : forall l i, Forall (fun v => wf_prim pr v = true) l -> exists ps, enc_list t i l = Some ps.
Proof.
  induction l as [|v l IH]; intros i H; cbn [enc_list]; [eauto|].
  inversion H; subst. destruct (wf_prim_enc pr v H2) as [vt ->].
  destruct (IH (i + 1) H3) as [r ->]. eauto.
Qed.

Lemma enc_map_ok pr t : forall m,
  Forall (fun kv => wf_prim pr (snd kv) = true) m -> exists ps, enc_map t m = Some ps.
Proof.
  induction m as [|[k v] m IH]; intros H; cbn [enc_map]; [eauto|].
  inversion H; subst. cbn in H2. destruct (wf_prim_enc pr v H2) as [vt ->].
  destruct (IH H3) as [r ->]. eauto.
Qed.

Lemma enc_struct_ok t : forall fs l, wf_struct wf_prim fs l = true -> exists ps, enc_struct t fs l = Some ps.
Proof.
  induction fs as [|[k pr] fs IH]; intros [|v l] H; cbn [enc_struct]; eauto; cbn [wf_struct] in H.
  apply andb_true_iff in H. destruct H as [H1 H2].
  destruct (wf_prim_enc pr v H1) as [vt ->]. destruct (IH l H2) as [r ->]. eauto.
Qed.

Lemma enc_field_ok t k v :
  kind_ok k = true -> wf_fval wf_prim k v = true -> exists ps, enc_field t k v = Some ps.
Proof.
  intros Hk Hw. destruct k as [pr|pr|pr|n pr|pr|fs|fs], v as [x|o|l|m|l|o]; cbn [wf_fval] in Hw; try discriminate;
    cbn [enc_field].
  - destruct (wf_prim_enc pr x Hw) as [vt ->]. cbn. eauto.
  - destruct o as [x|]; [|eauto]. destruct (wf_prim_enc pr x Hw) as [vt ->]. cbn. eauto.
  - apply andb_true_iff in Hw. destruct Hw as [Hl Hf]. apply Nat.leb_le in Hl.
    destruct (Nat.ltb_spec max_size (length l)); [lia|]. apply (enc_list_ok pr). apply forallb_Forall. assumption.
  - apply andb_true_iff in Hw. destruct Hw as [Hl Hf]. apply Nat.eqb_eq in Hl.
    cbn [kind_ok] in Hk. apply andb_true_iff in Hk. destruct Hk as [_ Hn]. apply Nat.leb_le in Hn.
    destruct (Nat.ltb_spec max_size (length l)); [lia|]. apply (enc_list_ok pr). apply forallb_Forall. assumption.
  - apply andb_true_iff in Hw. destruct Hw as [Hw Hf]. apply andb_true_iff in Hw. destruct Hw as [Hl Hs].
    apply Nat.leb_le in Hl. destruct (Nat.ltb_spec max_size (length m)); [lia|].
    apply (enc_map_ok pr). apply forallb_Forall in Hf. eapply Forall_impl; [|exact Hf].
    intros kv H'. apply andb_true_iff in H'. tauto.
  - apply enc_struct_ok. assumption.
  - destruct o as [l|]; [apply enc_struct_ok; assumption|eauto].
Qed.

Section RoundTrip.
Hypothesis Hconv : conv_exact.

Lemma enc_fields_ok : forall ty vs,
  forallb (fun f => nonempty (f_type f) && kind_ok (f_kind f)) ty = true ->
  wf_vals wf_prim ty vs = true ->
  exists P E pss, enc_fields ty vs = Some (P, E) /\ gather ty pss = (P, E) /\
                  fields_ok ty (map (fun f => zero_kind (f_kind f)) ty) pss vs.
Proof.
  induction ty as [|f ty IH]; intros vs Hk Hw.
  - destruct vs; [|discriminate]. exists [], [], []. repeat split. constructor.
  - destruct vs as [|v vs]; [discriminate|]. cbn [wf_vals] in Hw. apply andb_true_iff in Hw. destruct Hw as [Hv Hw].
    cbn [forallb] in Hk. apply andb_true_iff in Hk. destruct Hk as [Hf Hk].
    apply andb_true_iff in Hf. destruct Hf as [_ Hf].
    destruct (IH vs Hk Hw) as (P & E & pss & He & Hg & Hok).
    destruct (enc_field_ok (f_type f) (f_kind f) v Hf Hv) as [ps Hps].
    exists (if f_edge f then P else ps ++ P), (if f_edge f then ps ++ E else E), (ps :: pss).
    cbn [enc_fields gather map]. rewrite Hps, He, Hg.
    split; [destruct (f_edge f); reflexivity|]. split; [destruct (f_edge f); reflexivity|].
    constructor; [eapply enc_field_types; eassumption| |assumption].
    apply (field_rt Hconv (f_type f)); assumption.
Qed.

(* C10, first half *)
Theorem roundtrip ty c :
  wf_ty ty = true -> wfb ty c = true ->
  exists n, encode ty c = Ok n /\ decode ty n = Ok c.
Proof.
  unfold wf_ty, wfb. intros Hty Hw.
  apply andb_true_iff in Hty. destruct Hty as [Hty De]. apply andb_true_iff in Hty. destruct Hty as [Hk Dp].
  destruct (enc_fields_ok ty (c_vals c) Hk Hw) as (P & E & pss & He & Hg & Hok).
  unfold encode. rewrite He. eexists. split; [reflexivity|].
  unfold decode, decode_into, zero_cfg. cbn [n_id n_parent n_points n_edge c_vals c_id c_parent].
  pose proof (dec_fields_gather _ _ _ _ Hok [] [] Dp De) as Hd.
  rewrite Hg in Hd. cbn [fst snd app] in Hd. rewrite Hd by (intros p []). cbn [omap].
  destruct c as [ci cp cv]. cbn. f_equal. f_equal; [destruct ci|destruct cp]; reflexivity.
Qed.

End RoundTrip.
