(* C10, second half: merging the points of DiffPoints(a, b) into a gives b. *)
From Coq Require Import ZifyN ZifyNat ZifyBool.
From Verif Require Import Base.Bytes Base.Val Codec.Model Codec.Basics Codec.Total Codec.Proofs.
Local Open Scope N_scope.
Ltac Zify.zify_post_hook ::= Z.div_mod_to_equations.
Arguments itoa : simpl never.
Ltac lenlia := unfold len in *; cbn [length] in *; lia.

Lemma addpt_itoa t i vt : addpt t (itoa i) vt = mkpt t (itoa i) vt.
Proof. unfold addpt. rewrite norm_key_itoa. reflexivity. Qed.
Lemma addtomb_itoa t i : addtomb t (itoa i) = tombpt t (itoa i).
Proof. unfold addtomb. rewrite norm_key_itoa. reflexivity. Qed.

(* ------------------------------------------------------------------ *)
(* slices and arrays                                                    *)
(* ------------------------------------------------------------------ *)
Section ListDiff.
Hypothesis Hconv : conv_exact.
Variable pr : prim.
Variable t : bytes.
Notation zero := (zero_prim pr).
Notation wfz := (fun v => wfz_prim pr v = true).

(* the update part of the difference, applied to a padded with zeros up to the length of b *)
Lemma loop_diff_list n : forall b2 a2 pre i ps d,
  len pre = i -> Forall wfz a2 -> Forall wfz b2 ->
  i + len a2 <= n -> i + len b2 <= n -> n < 2^63 ->
  diff_list t i a2 b2 = Some ps ->
  list_loop pr n ps (pre ++ a2 ++ repeat zero (length b2 - length a2)) d
  = LOk (pre ++ b2 ++ skipn (length b2) a2) d.
Proof.
  induction b2 as [|y b2 IH]; intros a2 pre i ps d Hp Ha Hb Hna Hnb Hn Hd; subst i.
  - cbn [diff_list] in Hd. inversion Hd. cbn [length Nat.sub repeat skipn app list_loop].
    rewrite app_nil_r. reflexivity.
  - cbn [diff_list] in Hd. inversion Hb as [|? ? Hy Hb']; subst.
    unfold len in Hnb. cbn [length] in Hnb.
    destruct a2 as [|x a2].
    + (* past the end of a: always a point *)
      destruct (enc_pval y) as [vt|] eqn:Ey; [|discriminate]. cbn [option_map] in Hd.
      destruct (diff_list t (len pre + 1) [] b2) as [r|] eqn:Er; [|discriminate].
      inversion Hd; subst ps. rewrite addpt_itoa. cbn [app length Nat.sub repeat skipn].
      rewrite (list_loop_step Hconv pr n t (len pre) y vt) by (try reflexivity; try assumption; try (apply wfz_wf; assumption); lenlia).
      replace (pre ++ y :: repeat zero (length b2)) with ((pre ++ [y]) ++ [] ++ repeat zero (length b2 - length (@nil pval)))
        by (cbn [length app]; rewrite Nat.sub_0_r, <- app_assoc; reflexivity).
      rewrite (IH [] (pre ++ [y]) (len pre + 1) r d); try assumption.
      * rewrite <- app_assoc. cbn [app]. destruct (length b2); reflexivity.
      * unfold len. rewrite app_length. cbn. lia.
      * unfold len in *. cbn [length]. lia.
      * unfold len in *. lia.
    + inversion Ha as [|? ? Hx Ha']; subst. unfold len in Hna. cbn [length] in Hna.
      cbn [app length Nat.sub skipn].
      destruct (pval_goeq y x) eqn:Eq; cbn [negb] in Hd.
      * (* unchanged element: no point *)
        destruct (diff_list t (len pre + 1) a2 b2) as [r|] eqn:Er; [|discriminate].
        inversion Hd; subst ps. cbn [app].
        assert (y = x) by (eapply goeq_eq; eassumption). subst y.
        replace (pre ++ x :: a2 ++ repeat zero (length b2 - length a2))
          with ((pre ++ [x]) ++ a2 ++ repeat zero (length b2 - length a2)) by (rewrite <- app_assoc; reflexivity).
        rewrite (IH a2 (pre ++ [x]) (len pre + 1) r d); try assumption.
        -- rewrite <- app_assoc. reflexivity.
        -- unfold len. rewrite app_length. cbn. lia.
        -- unfold len in *. lia.
        -- unfold len in *. lia.
      * destruct (enc_pval y) as [vt|] eqn:Ey; [|discriminate]. cbn [option_map] in Hd.
        destruct (diff_list t (len pre + 1) a2 b2) as [r|] eqn:Er; [|discriminate].
        inversion Hd; subst ps. rewrite addpt_itoa. cbn [app].
        rewrite (list_loop_step Hconv pr n t (len pre) y vt) by (try reflexivity; try assumption; try (apply wfz_wf; assumption); lenlia).
        replace (pre ++ y :: a2 ++ repeat zero (length b2 - length a2))
          with ((pre ++ [y]) ++ a2 ++ repeat zero (length b2 - length a2)) by (rewrite <- app_assoc; reflexivity).
        rewrite (IH a2 (pre ++ [y]) (len pre + 1) r d); try assumption.
        -- rewrite <- app_assoc. reflexivity.
        -- unfold len. rewrite app_length. cbn. lia.
        -- unfold len in *. lia.
        -- unfold len in *. lia.
Qed.

End ListDiff.

Lemma split_last {A} (l : list A) m : length l = S m -> exists l' x, l = l' ++ [x] /\ length l' = m.
Proof.
  intros H. destruct (@exists_last A l) as (l' & x & E); [destruct l; discriminate|].
  exists l', x. split; [assumption|]. subst. rewrite app_length in H. cbn in H. lia.
Qed.

Lemma tomb_range_S t lo m :
  tomb_range t lo (S m) = tombpt t (itoa (lo + N.of_nat m)) :: tomb_range t lo m.
Proof. cbn [tomb_range]. rewrite addtomb_itoa. reflexivity. Qed.

(* the tombstone part: positions lo .. lo+k-1 are zeroed and recorded as deleted *)
Lemma loop_tombs pr t n lo : forall k pre rest suf d,
  length rest = k -> len pre = lo -> lo + N.of_nat k <= n -> n < 2^63 ->
  list_loop pr n (tomb_range t lo k) (pre ++ rest ++ suf) d
  = LOk (pre ++ repeat (zero_prim pr) k ++ suf) (map (fun j => lo + N.of_nat j) (seq 0 k) ++ d).
Proof.
  induction k as [|m IH]; intros pre rest suf d Hr Hp Hn Hb.
  - destruct rest; [|discriminate]. reflexivity.
  - destruct (split_last rest m Hr) as (rest' & x & -> & Hr').
    rewrite tomb_range_S. cbn [list_loop]. rewrite live_tombpt, idx_of_tomb by lia.
    assert (lo + N.of_nat m <? n = true) as -> by lia.
    replace (pre ++ (rest' ++ [x]) ++ suf) with ((pre ++ rest') ++ x :: suf)
      by (rewrite <- !app_assoc; reflexivity).
    replace (N.to_nat (lo + N.of_nat m)) with (length (pre ++ rest')) by (rewrite app_length; unfold len in Hp; lia).
    rewrite set_nth_app. rewrite <- app_assoc.
    rewrite (IH pre rest' (zero_prim pr :: suf) ((lo + N.of_nat m) :: d)); try assumption; try lia.
    f_equal.
    + f_equal. change (zero_prim pr :: suf) with ([zero_prim pr] ++ suf). rewrite app_assoc, repeat_snoc. reflexivity.
    + rewrite seq_S, map_app. cbn [map Nat.add]. rewrite <- app_assoc. reflexivity.
Qed.

Lemma existsb_eqb_In x l : existsb (N.eqb x) l = true <-> In x l.
Proof.
  rewrite existsb_exists. split.
  - intros (y & Hy & E). apply N.eqb_eq in E. subst. assumption.
  - intros H. exists x. split; [assumption|apply N.eqb_refl].
Qed.

Lemma trim_len_range dels lo : forall k,
  (forall j, (lo <= j < lo + k)%nat -> In (N.of_nat j) dels) ->
  (forall x, In x dels -> N.of_nat lo <= x) ->
  trim_len dels (lo + k) = lo.
Proof.
  induction k as [|k IH]; intros Hin Hlo.
  - rewrite Nat.add_0_r. destruct lo as [|m]; [reflexivity|]. cbn [trim_len].
    destruct (existsb (N.eqb (N.of_nat m)) dels) eqn:E; [|reflexivity].
    apply existsb_eqb_In in E. apply Hlo in E. lia.
  - rewrite Nat.add_succ_r. cbn [trim_len].
    assert (existsb (N.eqb (N.of_nat (lo + k))) dels = true) as ->.
    { apply existsb_eqb_In. apply Hin. lia. }
    apply IH; [intros j Hj; apply Hin; lia|assumption].
Qed.

Lemma diff_list_keys t : forall b2 a2 i ps,
  diff_list t i a2 b2 = Some ps ->
  Forall (fun p => exists j, i <= j < i + len b2 /\ p_key p = itoa j /\ live p = true /\ p_type p = t) ps.
Proof.
  induction b2 as [|y b2 IH]; intros a2 i ps Hd; cbn [diff_list] in Hd.
  - inversion Hd. constructor.
  - match type of Hd with context [diff_list t (i + 1) ?a' b2] => destruct (diff_list t (i + 1) a' b2) as [r|] eqn:Er end.
    2:{ destruct (if match a2 with [] => true | x :: _ => negb (pval_goeq y x) end
                  then option_map (fun vt => [addpt t (itoa i) vt]) (enc_pval y) else Some []); discriminate. }
    assert (Hr : Forall (fun p => exists j, i <= j < i + len (y :: b2) /\ p_key p = itoa j /\ live p = true /\ p_type p = t) r).
    { eapply Forall_impl; [|apply (IH _ _ _ Er)]. intros p (j & Hj & Hk). exists j. split; [lenlia|assumption]. }
    destruct (match a2 with [] => true | x :: _ => negb (pval_goeq y x) end).
    + destruct (enc_pval y) as [vt|]; [|discriminate]. cbn [option_map] in Hd. inversion Hd; subst.
      cbn [app]. constructor; [|assumption]. exists i. rewrite addpt_itoa. split; [lenlia|]. repeat split.
    + inversion Hd; subst. assumption.
Qed.

Lemma tomb_range_keys t lo : forall k,
  Forall (fun p => exists j, lo <= j < lo + N.of_nat k /\ p_key p = itoa j /\ live p = false /\ p_type p = t)
         (tomb_range t lo k).
Proof.
  induction k as [|k IH]; [constructor|].
  rewrite tomb_range_S. constructor.
  - exists (lo + N.of_nat k). split; [lia|]. repeat split.
  - eapply Forall_impl; [|exact IH]. intros p (j & Hj & Hk). exists j. split; [lia|assumption].
Qed.

(* when b is longer than a, its last index is among the live points *)
Lemma km_diff_list_ge t : forall b2 a2 i ps m,
  i + len b2 < 2^63 ->
  diff_list t i a2 b2 = Some ps -> (length a2 < length b2)%nat ->
  (Z.of_N i + Z.of_nat (length b2) - 1 <= fold_left km_step ps m)%Z.
Proof.
  induction b2 as [|y b2 IH]; intros a2 i ps m Hb Hd Hl; [cbn in Hl; lia|].
  cbn [diff_list] in Hd.
  match type of Hd with context [diff_list t (i + 1) ?a' b2] => destruct (diff_list t (i + 1) a' b2) as [r|] eqn:Er end.
  2:{ destruct (if match a2 with [] => true | x :: _ => negb (pval_goeq y x) end
                then option_map (fun vt => [addpt t (itoa i) vt]) (enc_pval y) else Some []); discriminate. }
  destruct a2 as [|x a2].
  - destruct (enc_pval y) as [vt|]; [|discriminate]. cbn [option_map] in Hd. inversion Hd; subst.
    cbn [app fold_left]. rewrite addpt_itoa.
    rewrite (km_step_live m _ i); [|reflexivity|cbn [mkpt p_key]; apply key_index_itoa; lenlia].
    destruct b2 as [|y2 b2].
    + cbn [diff_list] in Er. inversion Er; subst. cbn [fold_left length]. lia.
    + specialize (IH [] (i + 1) r (Z.max m (Z.of_N i))). cbn [length] in *.
      assert (Z.of_N (i + 1) + Z.of_nat (S (length b2)) - 1 <= fold_left km_step r (Z.max m (Z.of_N i)))%Z.
      { apply IH; [lenlia|assumption|lia]. }
      lia.
  - cbn [length] in Hl.
    assert (Ht : (Z.of_N (i + 1) + Z.of_nat (length b2) - 1 <= fold_left km_step r
                   (fold_left km_step (if negb (pval_goeq y x) then match enc_pval y with Some vt => [addpt t (itoa i) vt] | None => [] end else []) m))%Z).
    { apply (IH a2); [lenlia|assumption|lia]. }
    destruct (negb (pval_goeq y x)).
    + destruct (enc_pval y) as [vt|]; [|discriminate]. cbn [option_map] in Hd. inversion Hd; subst.
      cbn [app fold_left length] in *. lia.
    + inversion Hd; subst. cbn [app length fold_left] in *. lia.
Qed.

Section ListDiff2.
Hypothesis Hconv : conv_exact.
Variable pr : prim.
Variable t : bytes.
Notation zero := (zero_prim pr).
Notation wfz := (fun v => wfz_prim pr v = true).

Lemma loop_diff_full a b ups n :
  Forall wfz a -> Forall wfz b -> n < 2^63 ->
  n = len (a ++ repeat zero (length b - length a)) ->
  diff_list t 0 a b = Some ups ->
  list_loop pr n (ups ++ tomb_range t (len b) (length a - length b)) (a ++ repeat zero (length b - length a)) []
  = LOk (b ++ repeat zero (length a - length b))
        (map (fun j => len b + N.of_nat j) (seq 0 (length a - length b))).
Proof.
  intros Ha Hb Hn En Hd.
  assert (Hlen : n = N.max (len a) (len b)).
  { subst n. unfold len. rewrite app_length, repeat_length. lia. }
  rewrite list_loop_app.
  change (a ++ repeat zero (length b - length a)) with ([] ++ a ++ repeat zero (length b - length a)).
  rewrite (loop_diff_list Hconv pr t n b a [] 0 ups []); try assumption; try reflexivity; try lia.
  cbn [app].
  replace (b ++ skipn (length b) a) with (b ++ skipn (length b) a ++ []) by (rewrite app_nil_r; reflexivity).
  rewrite (loop_tombs pr t n (len b) (length a - length b) b (skipn (length b) a) [] []); try reflexivity; try lia.
  - rewrite !app_nil_r. reflexivity.
  - rewrite skipn_length. reflexivity.
  - unfold len in *. lia.
Qed.

Lemma set_list_diff a b ups arr :
  Forall wfz a -> Forall wfz b -> (length a <= max_size)%nat -> (length b <= max_size)%nat ->
  diff_list t 0 a b = Some ups ->
  (arr = None \/ (arr = Some (length a) /\ length a = length b)) ->
  set_list arr pr (ups ++ tomb_range t (len b) (length a - length b)) a = Ok b.
Proof.
  intros Ha Hb Hla Hlb Hd Harr. unfold max_size in *.
  pose proof (diff_list_keys t b a 0 ups Hd) as Hk.
  pose proof (tomb_range_keys t (len b) (length a - length b)) as Hkt.
  assert (Hbad : existsb key_bad (ups ++ tomb_range t (len b) (length a - length b)) = false).
  { apply (keys_not_bad _ 0 3000); [lia|]. apply Forall_app. split.
    - eapply Forall_impl; [|exact Hk]. intros p (j & Hj & Hkey & _). exists j. split; [lenlia|assumption].
    - eapply Forall_impl; [|exact Hkt]. intros p (j & Hj & Hkey & _). exists j. split; [lenlia|assumption]. }
  set (km := fold_left km_step ups (-1)%Z).
  assert (Hkm : key_max (ups ++ tomb_range t (len b) (length a - length b)) = km).
  { rewrite key_max_fold, fold_left_app. apply km_fold_dead.
    eapply Forall_impl; [|exact Hkt]. intros p (j & _ & _ & Hl & _). exact Hl. }
  assert (Hle : (km <= Z.of_nat (length b) - 1)%Z).
  { apply km_fold_le; [lia|]. intros p i Hin _ Hki.
    rewrite Forall_forall in Hk. destruct (Hk p Hin) as (j & Hj & Hkey & _).
    rewrite Hkey, key_index_itoa in Hki by lenlia. inversion Hki; subst. lenlia. }
  assert (Hge : (length a < length b)%nat -> (Z.of_nat (length b) - 1 <= km)%Z).
  { intros Hl. pose proof (km_diff_list_ge t b a 0 ups (-1)%Z) as H. cbn in H. apply H; [lenlia|assumption|assumption]. }
  unfold set_list. rewrite Hbad, Hkm. unfold max_size.
  destruct (Z.ltb_spec (Z.of_nat 1000) km); [lia|].
  assert (Hfin : forall l1 n, l1 = a ++ repeat zero (length b - length a) -> n = len l1 ->
     match list_loop pr n (ups ++ tomb_range t (len b) (length a - length b)) l1 [] with
     | LOk l' dels => Ok (firstn (trim_len dels (length l')) l')
     | LErr l' => Err l'
     | LPanic => Panic
     end = Ok b).
  { intros l1 n -> ->. rewrite (loop_diff_full a b ups); try assumption; try reflexivity.
    - rewrite app_length, repeat_length.
      rewrite (trim_len_range _ (length b) (length a - length b)).
      + rewrite firstn_length_app. reflexivity.
      + intros j Hj. apply in_map_iff. exists (j - length b)%nat. split; [lenlia|]. apply in_seq. lia.
      + intros x Hx. apply in_map_iff in Hx. destruct Hx as (j & <- & _). lenlia.
    - unfold len. rewrite app_length, repeat_length. lia. }
  destruct Harr as [->|[-> Hab]].
  - apply Hfin; [|reflexivity].
    destruct (Z.ltb_spec (Z.of_nat (length a) - 1) km) as [Hlt|Hnl].
    + assert (length a < length b)%nat by lia. specialize (Hge H0).
      f_equal. f_equal. lia.
    + assert (length b <= length a)%nat by (destruct (Nat.ltb_spec (length a) (length b)) as [Hc|Hc]; [specialize (Hge Hc); lia|lia]).
      replace (length b - length a)%nat with 0%nat by lia. cbn [repeat]. rewrite app_nil_r. reflexivity.
  - destruct (Z.ltb_spec (Z.of_nat (length a) - 1) km); [lia|].
    specialize (Hfin a (len a)).
    replace (length b - length a)%nat with 0%nat in Hfin by lia. cbn [repeat] in Hfin. rewrite app_nil_r in Hfin.
    specialize (Hfin eq_refl eq_refl).
    destruct (list_loop pr (len a) (ups ++ tomb_range t (len b) (length a - length b)) a []) as [l' dels| |] eqn:E;
      try discriminate.
    (* no tombstones: nothing is trimmed *)
    revert E. replace (length a - length b)%nat with 0%nat in * by lia. cbn [tomb_range]. rewrite app_nil_r.
    intros E.
    pose proof (loop_diff_full a b ups (len a)) as HF.
    replace (length b - length a)%nat with 0%nat in HF by lia.
    replace (length a - length b)%nat with 0%nat in HF by lia.
    cbn [repeat tomb_range seq map] in HF. rewrite !app_nil_r in HF.
    rewrite HF in E; try assumption; try reflexivity; [|lenlia].
    inversion E; subst. reflexivity.
Qed.

End ListDiff2.

(* ------------------------------------------------------------------ *)
(* maps                                                                 *)
(* ------------------------------------------------------------------ *)
(* the last point of a group that addresses key k *)
Fixpoint last_op (k : bytes) (g : list point) : option point :=
  match g with
  | [] => None
  | p :: g' => match last_op k g' with
               | Some q => Some q
               | None => if bytes_eqb (norm_key (p_key p)) k then Some p else None
               end
  end.

Lemma last_op_app k g1 : forall g2,
  last_op k (g1 ++ g2) = match last_op k g2 with Some q => Some q | None => last_op k g1 end.
Proof.
  induction g1 as [|p g1 IH]; intros g2; cbn [app last_op].
  - destruct (last_op k g2); reflexivity.
  - rewrite IH. destruct (last_op k g2); reflexivity.
Qed.

Lemma map_loop_spec pr : forall g m,
  sorted_keys m = true ->
  Forall (fun p => live p = true -> set_prim pr p <> None) g ->
  exists m', map_loop pr g m = Ok m' /\ sorted_keys m' = true /\
    forall k, m_lookup k m' = match last_op k g with
                              | Some p => if live p then set_prim pr p else None
                              | None => m_lookup k m
                              end.
Proof.
  induction g as [|p g IH]; intros m Hs Hg.
  - exists m. repeat split; assumption.
  - inversion Hg as [|? ? Hp Hg']; subst. cbn [map_loop last_op].
    destruct (live p) eqn:L.
    + destruct (set_prim pr p) as [v|] eqn:Sp; [|exfalso; apply Hp; reflexivity].
      destruct (IH (m_insert (norm_key (p_key p)) v m) (sorted_insert _ _ _ Hs) Hg') as (m' & Hm & Hs' & Hl).
      exists m'. repeat split; try assumption. intros k. rewrite Hl.
      destruct (last_op k g); [reflexivity|]. rewrite lookup_insert, bytes_eqb_sym.
      destruct (bytes_eqb (norm_key (p_key p)) k); [rewrite L, Sp|]; reflexivity.
    + destruct (IH (m_delete (norm_key (p_key p)) m) (sorted_delete _ _ Hs) Hg') as (m' & Hm & Hs' & Hl).
      exists m'. repeat split; try assumption. intros k. rewrite Hl.
      destruct (last_op k g); [reflexivity|]. rewrite lookup_delete by assumption. rewrite bytes_eqb_sym.
      destruct (bytes_eqb (norm_key (p_key p)) k); [rewrite L|]; reflexivity.
Qed.

Definition changed (a : list (bytes * pval)) (k : bytes) (y : pval) : bool :=
  match m_lookup k a with Some x => negb (pval_goeq y x) | None => true end.

Lemma last_op_single_other k p : bytes_eqb (norm_key (p_key p)) k = false -> last_op k [p] = None.
Proof. cbn. intros ->. reflexivity. Qed.

Lemma last_op_upd t a : forall b ups,
  sorted_keys b = true -> Forall (fun kv => nonempty (fst kv) = true) b ->
  diff_map_upd t a b = Some ups ->
  forall k, last_op k ups =
    match m_lookup k b with
    | Some y => if changed a k y then option_map (fun vt => mkpt t k vt) (enc_pval y) else None
    | None => None
    end.
Proof.
  induction b as [|[k1 y1] b IH]; intros ups Hs Hne Hd k; cbn [diff_map_upd] in Hd.
  - inversion Hd. reflexivity.
  - apply sorted_cons in Hs. destruct Hs as [Hg Hs]. inversion Hne as [|? ? Hk1 Hne']; subst. cbn [fst] in Hk1.
    destruct (diff_map_upd t a b) as [r|] eqn:Er.
    2:{ destruct (if match m_lookup k1 a with Some x => negb (pval_goeq y1 x) | None => true end
                  then option_map (fun vt => [addpt t k1 vt]) (enc_pval y1) else Some []); discriminate. }
    specialize (IH r Hs Hne' eq_refl k).
    cbn [m_lookup]. fold (changed a k1 y1) in Hd.
    destruct (bytes_eqb k k1) eqn:E.
    + apply bytes_eqb_eq in E. subst k1.
      rewrite (lookup_gt k b Hg) in IH.
      destruct (changed a k y1).
      * destruct (enc_pval y1) as [vt|]; [|discriminate]. cbn [option_map] in Hd. inversion Hd; subst ups.
        cbn [app last_op]. rewrite IH. cbn [option_map]. unfold addpt. cbn [mkpt p_key].
        rewrite !(norm_key_nonempty k Hk1), bytes_eqb_refl. reflexivity.
      * inversion Hd; subst ups. cbn [app]. exact IH.
    + destruct (changed a k1 y1).
      * destruct (enc_pval y1) as [vt|]; [|discriminate]. cbn [option_map] in Hd. inversion Hd; subst ups.
        cbn [app last_op]. rewrite IH.
        assert (bytes_eqb (norm_key (p_key (addpt t k1 vt))) k = false) as ->.
        { unfold addpt. cbn [mkpt p_key]. rewrite !(norm_key_nonempty k1 Hk1), bytes_eqb_sym. exact E. }
        destruct (m_lookup k b) as [y|]; [destruct (changed a k y); [destruct (enc_pval y)|]|]; reflexivity.
      * inversion Hd; subst ups. cbn [app]. exact IH.
Qed.

Lemma last_op_del t b : forall a,
  Forall (fun kv => nonempty (fst kv) = true) a ->
  forall k, last_op k (diff_map_del t a b) =
    match m_lookup k a, m_lookup k b with
    | Some _, None => Some (tombpt t k)
    | _, _ => None
    end.
Proof.
  induction a as [|[k1 x1] a IH]; intros Hne k.
  - reflexivity.
  - inversion Hne as [|? ? Hk1 Hne']; subst. cbn [fst] in Hk1.
    unfold diff_map_del in *. cbn [flat_map fst]. rewrite last_op_app, (IH Hne' k). cbn [m_lookup].
    destruct (bytes_eqb k k1) eqn:E.
    + apply bytes_eqb_eq in E. subst k1.
      destruct (m_lookup k b) eqn:Lb.
      * destruct (m_lookup k a); reflexivity.
      * cbn [last_op]. unfold addtomb. cbn [tombpt p_key]. rewrite !(norm_key_nonempty k Hk1), bytes_eqb_refl.
        destruct (m_lookup k a); reflexivity.
    + assert (Hx : last_op k (match m_lookup k1 b with Some _ => [] | None => [addtomb t k1] end) = None).
      { destruct (m_lookup k1 b); [reflexivity|]. apply last_op_single_other.
        unfold addtomb. cbn [tombpt p_key]. rewrite !(norm_key_nonempty k1 Hk1), bytes_eqb_sym. exact E. }
      rewrite Hx. destruct (m_lookup k a); [destruct (m_lookup k b)|]; reflexivity.
Qed.

Lemma diff_map_upd_points t a : forall b ups,
  diff_map_upd t a b = Some ups ->
  Forall (fun p => exists k y vt, In (k, y) b /\ enc_pval y = Some vt /\ p = addpt t k vt) ups.
Proof.
  induction b as [|[k1 y1] b IH]; intros ups Hd; cbn [diff_map_upd] in Hd.
  - inversion Hd. constructor.
  - destruct (diff_map_upd t a b) as [r|] eqn:Er.
    2:{ destruct (if match m_lookup k1 a with Some x => negb (pval_goeq y1 x) | None => true end
                  then option_map (fun vt => [addpt t k1 vt]) (enc_pval y1) else Some []); discriminate. }
    assert (Hr : Forall (fun p => exists k y vt, In (k, y) ((k1, y1) :: b) /\ enc_pval y = Some vt /\ p = addpt t k vt) r).
    { eapply Forall_impl; [|apply (IH r eq_refl)]. intros p (k & y & vt & Hin & H). exists k, y, vt. split; [right; assumption|assumption]. }
    destruct (match m_lookup k1 a with Some x => negb (pval_goeq y1 x) | None => true end).
    + destruct (enc_pval y1) as [vt|] eqn:Ey; [|discriminate]. cbn [option_map] in Hd. inversion Hd; subst.
      cbn [app]. constructor; [|assumption]. exists k1, y1, vt. split; [left; reflexivity|split; [assumption|reflexivity]].
    + inversion Hd; subst. assumption.
Qed.

Section MapDiff.
Hypothesis Hconv : conv_exact.
Variable pr : prim.
Variable t : bytes.

Definition wfz_map (m : list (bytes * pval)) : Prop :=
  sorted_keys m = true /\ Forall (fun kv => nonempty (fst kv) = true /\ wfz_prim pr (snd kv) = true) m.

Lemma set_map_diff a b ups :
  wfz_map a -> wfz_map b ->
  diff_map_upd t a b = Some ups ->
  (length (ups ++ diff_map_del t a b) <= max_size)%nat ->
  set_map pr (ups ++ diff_map_del t a b) a = Ok b.
Proof.
  intros [Sa Fa] [Sb Fb] Hd Hlen. unfold set_map.
  destruct (Nat.ltb_spec max_size (length (ups ++ diff_map_del t a b))); [lia|].
  assert (Na : Forall (fun kv : bytes * pval => nonempty (fst kv) = true) a)
    by (eapply Forall_impl; [|exact Fa]; intros kv [H1 _]; exact H1).
  assert (Nb : Forall (fun kv : bytes * pval => nonempty (fst kv) = true) b)
    by (eapply Forall_impl; [|exact Fb]; intros kv [H1 _]; exact H1).
  pose proof (diff_map_upd_points t a b ups Hd) as Hpts.
  assert (Hwfb : forall k y, In (k, y) b -> wfz_prim pr y = true /\ nonempty k = true).
  { intros k y Hin. rewrite Forall_forall in Fb. destruct (Fb _ Hin) as [H1 H2]. split; assumption. }
  assert (Hwfa : forall k x, In (k, x) a -> wfz_prim pr x = true).
  { intros k x Hin. rewrite Forall_forall in Fa. destruct (Fa _ Hin) as [_ H2]. assumption. }
  destruct (map_loop_spec pr (ups ++ diff_map_del t a b) a Sa) as (m' & Hm & Sm & Hl).
  { apply Forall_app. split.
    - eapply Forall_impl; [|exact Hpts]. intros p (k & y & vt & Hin & Hy & ->) _.
      destruct (Hwfb k y Hin) as [Hw _]. unfold addpt.
      rewrite (prim_rt Hconv pr y vt t _ (wfz_wf _ _ Hw) Hy). discriminate.
    - unfold diff_map_del. rewrite Forall_forall. intros p Hp L. exfalso.
      apply in_flat_map in Hp. destruct Hp as (kv & _ & Hp). destruct (m_lookup (fst kv) b); [destruct Hp|].
      destruct Hp as [<-|[]]. discriminate. }
  rewrite Hm. f_equal. apply sorted_ext; try assumption.
  intros k. rewrite Hl, last_op_app, (last_op_del t b a Na k), (last_op_upd t a b ups Sb Nb Hd k).
  destruct (m_lookup k b) as [y|] eqn:Lb.
  - assert (Hin : In (k, y) b) by (apply lookup_In; assumption). destruct (Hwfb k y Hin) as [Hwy Hk].
    assert (Hnone : match m_lookup k a with Some _ => None | None => None end = @None point)
      by (destruct (m_lookup k a); reflexivity).
    rewrite Hnone. unfold changed.
    destruct (m_lookup k a) as [x|] eqn:La.
    + destruct (pval_goeq y x) eqn:Eq; cbn [negb].
      * f_equal. symmetry. eapply goeq_eq; try eassumption. eapply Hwfa. apply lookup_In. eassumption.
      * destruct (wf_prim_enc pr y (wfz_wf _ _ Hwy)) as [vt Hvt]. rewrite Hvt. cbn [option_map].
        rewrite live_mkpt. apply (prim_rt Hconv); [apply wfz_wf|]; assumption.
    + destruct (wf_prim_enc pr y (wfz_wf _ _ Hwy)) as [vt Hvt]. rewrite Hvt. cbn [option_map].
      rewrite live_mkpt. apply (prim_rt Hconv); [apply wfz_wf|]; assumption.
  - destruct (m_lookup k a); [rewrite live_tombpt|]; reflexivity.
Qed.

End MapDiff.

(* ------------------------------------------------------------------ *)
(* flat structs                                                         *)
(* ------------------------------------------------------------------ *)
Lemma diff_struct_keys t : forall fs a b ps,
  forallb (fun kp => nonempty (fst kp)) fs = true ->
  diff_struct t fs a b = Some ps ->
  forall p, In p ps -> In (p_key p) (map fst fs) /\ live p = true /\ p_type p = t.
Proof.
  induction fs as [|[k pr] fs IH]; intros a b ps Hne Hd p Hp; cbn [diff_struct] in Hd.
  - inversion Hd; subst. destruct Hp.
  - destruct a as [|x a]; [inversion Hd; subst; destruct Hp|].
    destruct b as [|y b]; [inversion Hd; subst; destruct Hp|].
    cbn [forallb fst] in Hne. apply andb_true_iff in Hne. destruct Hne as [Hk Hne].
    destruct (diff_struct t fs a b) as [r|] eqn:Er.
    2:{ destruct (if pval_goeq x y then Some [] else option_map (fun vt => [addpt t k vt]) (enc_pval y)); discriminate. }
    assert (Hr : forall q, In q r -> In (p_key q) (map fst ((k, pr) :: fs)) /\ live q = true /\ p_type q = t).
    { intros q Hq. destruct (IH a b r Hne Er q Hq) as (H1 & H2). split; [right; assumption|assumption]. }
    destruct (pval_goeq x y).
    + inversion Hd; subst. apply Hr. assumption.
    + destruct (enc_pval y) as [vt|]; [|discriminate]. cbn [option_map] in Hd. inversion Hd; subst.
      destruct Hp as [<-|Hp]; [|apply Hr; assumption].
      unfold addpt. cbn [mkpt p_key p_type]. rewrite (norm_key_nonempty k Hk). split; [left; reflexivity|split; reflexivity].
Qed.

Lemma struct_loop_nil : forall fs l, struct_loop fs l [] = Ok l.
Proof.
  induction fs as [|[k pr] fs IH]; intros l; cbn [struct_loop find_last]; [reflexivity|].
  destruct l as [|v l]; [reflexivity|]. rewrite IH. reflexivity.
Qed.

Section StructDiff.
Hypothesis Hconv : conv_exact.
Variable t : bytes.

Lemma sl_rel_diff : forall fs a b ps front,
  diff_struct t fs a b = Some ps ->
  wf_struct wfz_prim fs a = true -> wf_struct wfz_prim fs b = true ->
  distinct (map fst fs) = true -> forallb (fun kp => nonempty (fst kp)) fs = true ->
  (forall p, In p front -> ~ In (p_key p) (map fst fs)) ->
  sl_rel (front ++ ps) fs a b.
Proof.
  induction fs as [|[k pr] fs IH]; intros a b ps front Hd Ha Hb Hdis Hne Hfront.
  - destruct a; [|discriminate]. destruct b; [|discriminate]. constructor.
  - destruct a as [|x a]; [discriminate|]. destruct b as [|y b]; [discriminate|].
    cbn [diff_struct] in Hd. cbn [wf_struct] in Ha, Hb.
    apply andb_true_iff in Ha. destruct Ha as [Hx Ha]. apply andb_true_iff in Hb. destruct Hb as [Hy Hb].
    cbn [map fst distinct] in Hdis. apply andb_true_iff in Hdis. destruct Hdis as [Hk Hdis].
    apply negb_true_iff, mem_key_false in Hk.
    cbn [forallb fst] in Hne. apply andb_true_iff in Hne. destruct Hne as [Hkn Hne].
    destruct (diff_struct t fs a b) as [r|] eqn:Er.
    2:{ destruct (if pval_goeq x y then Some [] else option_map (fun vt => [addpt t k vt]) (enc_pval y)); discriminate. }
    assert (Hrk : forall q, In q r -> p_key q <> k).
    { intros q Hq E. apply Hk. rewrite <- E. apply (diff_struct_keys t fs a b r Hne Er q Hq). }
    assert (Hfk : forall q, In q front -> p_key q <> k).
    { intros q Hq E. apply (Hfront q Hq). left. symmetry. assumption. }
    destruct (pval_goeq x y) eqn:Eq.
    + inversion Hd; subst ps. cbn [app]. constructor.
      * rewrite find_last_app, (find_last_none k r Hrk), (find_last_none k front Hfk).
        symmetry. eapply goeq_eq; eassumption.
      * apply IH; try assumption. intros q Hq C. apply (Hfront q Hq). right. assumption.
    + destruct (enc_pval y) as [vt|] eqn:Ey; [|discriminate]. cbn [option_map] in Hd. inversion Hd; subst ps.
      cbn [app]. constructor.
      * rewrite find_last_app. cbn [find_last]. rewrite (find_last_none k r Hrk).
        unfold addpt. cbn [mkpt p_key]. rewrite (norm_key_nonempty k Hkn), bytes_eqb_refl.
        rewrite live_mkpt. apply (prim_rt Hconv); [apply wfz_wf|]; assumption.
      * replace (front ++ addpt t k vt :: r) with ((front ++ [addpt t k vt]) ++ r) by (rewrite <- app_assoc; reflexivity).
        apply IH; try assumption. intros q Hq C. apply in_app_or in Hq. destruct Hq as [Hq|[<-|[]]].
        -- apply (Hfront q Hq). right. assumption.
        -- unfold addpt in C. cbn [mkpt p_key] in C. rewrite (norm_key_nonempty k Hkn) in C. contradiction.
Qed.

End StructDiff.

Lemma wf_struct_weaken : forall fs l, wf_struct wfz_prim fs l = true -> wf_struct wf_prim fs l = true.
Proof.
  induction fs as [|[k pr] fs IH]; intros [|v l] H; cbn in *; try discriminate; try reflexivity.
  apply andb_true_iff in H. destruct H as [H1 H2]. rewrite (wfz_wf _ _ H1), (IH _ H2). reflexivity.
Qed.

Lemma ptrstruct_tombs t fs o ps :
  fs <> [] -> forallb (fun kp => nonempty (fst kp)) fs = true ->
  ps = map (fun kp : bytes * prim => addtomb t (fst kp)) fs ->
  match ps with [] => Ok (FPtrStruct o) | _ => set_value (KPtrStruct fs) ps (FPtrStruct o) end = Ok (FPtrStruct None).
Proof.
  intros Hne Hk ->.
  assert (HL : map (fun kp : bytes * prim => addtomb t (fst kp)) fs = map (fun k => tombpt t k) (map fst fs)).
  { rewrite map_map. apply map_ext_in. intros kp Hin. unfold addtomb.
    rewrite forallb_forall in Hk. rewrite (norm_key_nonempty _ (Hk kp Hin)). reflexivity. }
  destruct (map (fun kp : bytes * prim => addtomb t (fst kp)) fs) as [|p ps] eqn:E.
  - apply map_eq_nil in E. contradiction.
  - cbn [set_value]. rewrite valid_fields_fold, HL, vf_all_tombs. reflexivity.
Qed.

Lemma set_list_nil pr arr a :
  match arr with Some n => length a = n | None => True end -> set_list arr pr [] a = Ok a.
Proof.
  intros Harr. unfold set_list. cbn [existsb]. change (key_max []) with (-1)%Z.
  destruct (Z.ltb_spec (Z.of_nat max_size) (-1)); [lia|].
  destruct arr as [n|].
  - destruct (Z.ltb_spec (Z.of_nat n - 1) (-1)); [lia|]. reflexivity.
  - destruct (Z.ltb_spec (Z.of_nat (length a) - 1) (-1)); [lia|]. cbn [list_loop].
    rewrite trim_len_nil, firstn_all. reflexivity.
Qed.

(* ------------------------------------------------------------------ *)
(* one field: merging the difference                                    *)
(* ------------------------------------------------------------------ *)
Lemma forallb_wfz_Forall pr l : forallb (wfz_prim pr) l = true -> Forall (fun v => wfz_prim pr v = true) l.
Proof. apply forallb_Forall. Qed.

Section FieldDM.
Hypothesis Hconv : conv_exact.

Lemma field_dm t k a b ps :
  kind_ok k = true -> wf_fval wfz_prim k a = true -> wf_fval wfz_prim k b = true ->
  diff_field t k a b = Some ps ->
  match k with KMap _ => (length ps <= max_size)%nat | _ => True end ->
  match ps with [] => Ok a | _ => set_value k ps a end = Ok b.
Proof.
  intros Hk Ha Hb Hd Hsz.
  destruct k as [pr|pr|pr|n pr|pr|fs|fs], a as [x|ox|lx|mx|lx|ox]; cbn [wf_fval] in Ha; try discriminate;
    destruct b as [y|oy|ly|my|ly|oy]; cbn [wf_fval] in Hb; try discriminate; cbn [diff_field] in Hd.
  - (* scalar *)
    destruct (pval_goeq x y) eqn:Eq.
    + inversion Hd; subst ps. f_equal. f_equal. eapply goeq_eq; eassumption.
    + destruct (enc_pval y) as [vt|] eqn:Ey; [|discriminate]. inversion Hd; subst ps.
      cbn [set_value scalar_loop]. unfold addpt. rewrite live_mkpt.
      rewrite (prim_rt Hconv pr y vt t _ (wfz_wf _ _ Hb) Ey). reflexivity.
  - (* pointer *)
    destruct oy as [y|].
    + assert (Hd' : option_map (fun vt => [addpt t [] vt]) (enc_pval y) = Some ps) by (destruct ox; exact Hd).
      destruct (enc_pval y) as [vt|] eqn:Ey; [|discriminate]. inversion Hd'; subst ps.
      cbn [set_value ptr_loop]. unfold addpt. rewrite live_mkpt.
      rewrite (prim_rt Hconv pr y vt t _ (wfz_wf _ _ Hb) Ey). reflexivity.
    + destruct ox as [x|]; inversion Hd; subst ps; [|reflexivity].
      cbn [set_value ptr_loop]. unfold addtomb. rewrite live_tombpt. reflexivity.
  - (* slice *)
    apply andb_true_iff in Ha. destruct Ha as [Hla Hfa]. apply Nat.leb_le in Hla. apply forallb_wfz_Forall in Hfa.
    apply andb_true_iff in Hb. destruct Hb as [Hlb Hfb]. apply Nat.leb_le in Hlb. apply forallb_wfz_Forall in Hfb.
    destruct (Nat.ltb_spec max_size (length ly)); [lia|].
    destruct (diff_list t 0 lx ly) as [ups|] eqn:Eu; [|discriminate]. inversion Hd; subst ps.
    pose proof (set_list_diff Hconv pr t lx ly ups None Hfa Hfb Hla Hlb Eu (or_introl eq_refl)) as Hs.
    destruct (ups ++ tomb_range t (len ly) (length lx - length ly)) as [|p ps] eqn:E.
    + rewrite set_list_nil in Hs by exact I. inversion Hs. reflexivity.
    + cbn [set_value]. rewrite Hs. reflexivity.
  - (* array *)
    apply andb_true_iff in Ha. destruct Ha as [Hla Hfa]. apply Nat.eqb_eq in Hla. apply forallb_wfz_Forall in Hfa.
    apply andb_true_iff in Hb. destruct Hb as [Hlb Hfb]. apply Nat.eqb_eq in Hlb. apply forallb_wfz_Forall in Hfb.
    cbn [kind_ok] in Hk. apply andb_true_iff in Hk. destruct Hk as [_ Hn]. apply Nat.leb_le in Hn.
    destruct (Nat.ltb_spec max_size (length ly)); [lia|].
    destruct (diff_list t 0 lx ly) as [ups|] eqn:Eu; [|discriminate]. inversion Hd; subst ps.
    assert (Hs : set_list (Some (length lx)) pr (ups ++ tomb_range t (len ly) (length lx - length ly)) lx = Ok ly).
    { apply (set_list_diff Hconv); try assumption; try lia. right. split; [reflexivity|lia]. }
    destruct (ups ++ tomb_range t (len ly) (length lx - length ly)) as [|p ps] eqn:E.
    + rewrite set_list_nil in Hs by reflexivity. inversion Hs. reflexivity.
    + cbn [set_value]. rewrite Hla, Nat.eqb_refl. rewrite <- Hla, Hs. reflexivity.
  - (* map *)
    apply andb_true_iff in Ha. destruct Ha as [Ha Hfa]. apply andb_true_iff in Ha. destruct Ha as [Hla Hsa].
    apply andb_true_iff in Hb. destruct Hb as [Hb Hfb]. apply andb_true_iff in Hb. destruct Hb as [Hlb Hsb].
    apply Nat.leb_le in Hlb. destruct (Nat.ltb_spec max_size (length my)); [lia|].
    destruct (diff_map_upd t mx my) as [ups|] eqn:Eu; [|discriminate]. inversion Hd; subst ps.
    assert (Wa : wfz_map pr mx).
    { split; [assumption|]. apply forallb_Forall in Hfa. eapply Forall_impl; [|exact Hfa].
      intros kv H'. apply andb_true_iff in H'. exact H'. }
    assert (Wb : wfz_map pr my).
    { split; [assumption|]. apply forallb_Forall in Hfb. eapply Forall_impl; [|exact Hfb].
      intros kv H'. apply andb_true_iff in H'. exact H'. }
    pose proof (set_map_diff Hconv pr t mx my ups Wa Wb Eu Hsz) as Hs.
    destruct (ups ++ diff_map_del t mx my) as [|p ps] eqn:E.
    + unfold set_map in Hs. cbn in Hs. inversion Hs. reflexivity.
    + cbn [set_value]. rewrite Hs. reflexivity.
  - (* struct *)
    cbn [kind_ok] in Hk. apply andb_true_iff in Hk. destruct Hk as [Hk Hne].
    apply andb_true_iff in Hk. destruct Hk as [Hkn Hdis].
    assert (Hkn' : forallb (fun kp : bytes * prim => nonempty (fst kp)) fs = true).
    { rewrite forallb_forall in *. intros kp Hin. specialize (Hkn kp Hin). apply andb_true_iff in Hkn. tauto. }
    assert (Hps : struct_loop fs lx ps = Ok ly).
    { apply struct_loop_rel. apply (sl_rel_diff Hconv t fs lx ly ps []); try assumption. intros p []. }
    destruct ps as [|p ps].
    + rewrite struct_loop_nil in Hps. inversion Hps. reflexivity.
    + cbn [set_value]. rewrite Hps. reflexivity.
  - (* pointer to struct *)
    cbn [kind_ok] in Hk. apply andb_true_iff in Hk. destruct Hk as [Hk Hne].
    apply andb_true_iff in Hk. destruct Hk as [Hkn Hdis].
    assert (Hkn' : forallb (fun kp : bytes * prim => nonempty (fst kp)) fs = true).
    { rewrite forallb_forall in *. intros kp Hin. specialize (Hkn kp Hin). apply andb_true_iff in Hkn. tauto. }
    assert (Hfs : fs <> []) by (destruct fs; [discriminate|discriminate]).
    destruct ox as [lx|], oy as [ly|].
    + (* set -> set *)
      assert (Hps : struct_loop fs lx ps = Ok ly).
      { apply struct_loop_rel. apply (sl_rel_diff Hconv t fs lx ly ps []); try assumption. intros p []. }
      destruct ps as [|p ps].
      * rewrite struct_loop_nil in Hps. inversion Hps. reflexivity.
      * cbn [set_value]. rewrite valid_fields_fold.
        destruct (fold_left vf_step (p :: ps) (map fst fs)) eqn:Ev.
        { exfalso. revert Ev. apply vf_live.
          - rewrite Forall_forall. intros q Hq. apply (diff_struct_keys t fs lx ly _ Hkn' Hd q Hq).
          - destruct fs; [contradiction|discriminate]. }
        rewrite Hps. reflexivity.
    + (* set -> nil *)
      inversion Hd; subst ps. apply (ptrstruct_tombs t fs (Some lx)); try assumption. reflexivity.
    + (* nil -> set *)
      pose proof (wf_struct_weaken _ _ Hb) as Hb'.
      pose proof (wf_struct_length _ _ _ Hb') as Hlen.
      assert (Hps : struct_loop fs (map (fun kp => zero_prim (snd kp)) fs) ps = Ok ly).
      { apply struct_loop_rel. apply (sl_rel_enc Hconv t fs ly _ ps []); try assumption. apply map_length. }
      pose proof (enc_struct_live t _ _ _ Hd) as Hlive.
      destruct ps as [|p ps].
      * destruct fs as [|[k1 p1] fs]; [contradiction|]. destruct ly as [|y ly]; [discriminate|].
        cbn [enc_struct] in Hd. destruct (enc_pval y); [|discriminate].
        destruct (enc_struct t fs ly); discriminate.
      * cbn [set_value]. rewrite valid_fields_fold.
        destruct (fold_left vf_step (p :: ps) (map fst fs)) eqn:Ev.
        { exfalso. revert Ev. apply vf_live; [assumption|]. destruct fs; [contradiction|discriminate]. }
        rewrite Hps. reflexivity.
    + inversion Hd; subst ps. reflexivity.
Qed.

End FieldDM.

(* ------------------------------------------------------------------ *)
(* DiffPoints: types of the points, success on well-formed values       *)
(* ------------------------------------------------------------------ *)
Lemma diff_struct_types t : forall fs a b ps, diff_struct t fs a b = Some ps -> all_type t ps.
Proof.
  induction fs as [|[k pr] fs IH]; intros a b ps Hd; cbn [diff_struct] in Hd.
  - inversion Hd. constructor.
  - destruct a as [|x a]; [inversion Hd; constructor|]. destruct b as [|y b]; [inversion Hd; constructor|].
    destruct (diff_struct t fs a b) as [r|] eqn:Er.
    2:{ destruct (if pval_goeq x y then Some [] else option_map (fun vt => [addpt t k vt]) (enc_pval y)); discriminate. }
    pose proof (IH a b r Er) as Hr.
    destruct (pval_goeq x y).
    + inversion Hd; subst. assumption.
    + destruct (enc_pval y); [|discriminate]. cbn [option_map] in Hd. inversion Hd; subst.
      constructor; [reflexivity|assumption].
Qed.

Lemma diff_field_types t k a b ps : diff_field t k a b = Some ps -> all_type t ps.
Proof.
  intros Hd.
  destruct k as [pr|pr|pr|n pr|pr|fs|fs], a as [x|ox|lx|mx|lx|ox]; cbn [diff_field] in Hd; try discriminate;
    destruct b as [y|oy|ly|my|ly|oy]; cbn [diff_field] in Hd; try discriminate;
    try (destruct ox; discriminate).
  - destruct (pval_goeq x y); [inversion Hd; constructor|].
    destruct (enc_pval y); inversion Hd. repeat constructor.
  - destruct oy as [y|].
    + assert (Hd' : option_map (fun vt => [addpt t [] vt]) (enc_pval y) = Some ps) by (destruct ox; exact Hd).
      destruct (enc_pval y); inversion Hd'. repeat constructor.
    + destruct ox; inversion Hd; repeat constructor.
  - destruct (max_size <? length ly)%nat; [discriminate|].
    destruct (diff_list t 0 lx ly) as [ups|] eqn:Eu; [|discriminate]. inversion Hd; subst.
    apply Forall_app. split.
    + eapply Forall_impl; [|apply (diff_list_keys t ly lx 0 ups Eu)]. intros p (j & _ & _ & _ & H). exact H.
    + eapply Forall_impl; [|apply tomb_range_keys]. intros p (j & _ & _ & _ & H). exact H.
  - destruct (max_size <? length ly)%nat; [discriminate|].
    destruct (diff_list t 0 lx ly) as [ups|] eqn:Eu; [|discriminate]. inversion Hd; subst.
    apply Forall_app. split.
    + eapply Forall_impl; [|apply (diff_list_keys t ly lx 0 ups Eu)]. intros p (j & _ & _ & _ & H). exact H.
    + eapply Forall_impl; [|apply tomb_range_keys]. intros p (j & _ & _ & _ & H). exact H.
  - destruct (max_size <? length my)%nat; [discriminate|].
    destruct (diff_map_upd t mx my) as [ups|] eqn:Eu; [|discriminate]. inversion Hd; subst.
    apply Forall_app. split.
    + eapply Forall_impl; [|apply (diff_map_upd_points t mx my ups Eu)]. intros p (k & y & vt & _ & _ & ->). reflexivity.
    + unfold diff_map_del, all_type. rewrite Forall_forall. intros p Hp. apply in_flat_map in Hp.
      destruct Hp as (kv & _ & Hp). destruct (m_lookup (fst kv) my); [destruct Hp|]. destruct Hp as [<-|[]]. reflexivity.
  - eapply diff_struct_types; eassumption.
  - destruct ox as [lx|], oy as [ly|].
    + eapply diff_struct_types; eassumption.
    + inversion Hd. unfold all_type. rewrite Forall_forall. intros q Hq. apply in_map_iff in Hq.
      destruct Hq as (kp & <- & _). reflexivity.
    + eapply enc_struct_types; eassumption.
    + inversion Hd. constructor.
Qed.

Lemma diff_list_ok pr t : forall b a i,
  Forall (fun v => wf_prim pr v = true) b -> exists ps, diff_list t i a b = Some ps.
Proof.
  induction b as [|y b IH]; intros a i H; cbn [diff_list]; [eauto|].
  inversion H; subst. destruct (wf_prim_enc pr y H2) as [vt ->]. cbn [option_map].
  match goal with |- context [diff_list t (i + 1) ?a' b] => destruct (IH a' (i + 1) H3) as [r ->] end.
  destruct (match a with [] => true | x :: _ => negb (pval_goeq y x) end); eauto.
Qed.

Lemma diff_map_upd_ok pr t a : forall b,
  Forall (fun kv => wf_prim pr (snd kv) = true) b -> exists ps, diff_map_upd t a b = Some ps.
Proof.
  induction b as [|[k y] b IH]; intros H; cbn [diff_map_upd]; [eauto|].
  inversion H; subst. cbn in H2. destruct (wf_prim_enc pr y H2) as [vt ->]. cbn [option_map].
  destruct (IH H3) as [r ->].
  destruct (match m_lookup k a with Some x => negb (pval_goeq y x) | None => true end); eauto.
Qed.

Lemma diff_struct_ok t : forall fs a b, wf_struct wf_prim fs b = true -> exists ps, diff_struct t fs a b = Some ps.
Proof.
  induction fs as [|[k pr] fs IH]; intros a [|y b] H; cbn [diff_struct]; eauto; cbn [wf_struct] in H.
  - destruct a; eauto.
  - destruct a as [|x a]; [eauto|].
    apply andb_true_iff in H. destruct H as [H1 H2].
    destruct (wf_prim_enc pr y H1) as [vt ->]. cbn [option_map]. destruct (IH a b H2) as [r ->].
    destruct (pval_goeq x y); eauto.
Qed.

Lemma wf_fval_weaken k v : wf_fval wfz_prim k v = true -> wf_fval wf_prim k v = true.
Proof.
  destruct k as [pr|pr|pr|n pr|pr|fs|fs], v as [x|o|l|m|l|o]; cbn [wf_fval]; try discriminate; intros H.
  - apply wfz_wf. assumption.
  - destruct o; [apply wfz_wf; assumption|reflexivity].
  - apply andb_true_iff in H. destruct H as [H1 H2]. rewrite H1. cbn.
    apply forallb_Forall. apply forallb_Forall in H2. eapply Forall_impl; [|exact H2]. intros; apply wfz_wf; assumption.
  - apply andb_true_iff in H. destruct H as [H1 H2]. rewrite H1. cbn.
    apply forallb_Forall. apply forallb_Forall in H2. eapply Forall_impl; [|exact H2]. intros; apply wfz_wf; assumption.
  - apply andb_true_iff in H. destruct H as [H1 H2]. rewrite H1. cbn.
    apply forallb_Forall. apply forallb_Forall in H2. eapply Forall_impl; [|exact H2].
    intros kv H'. apply andb_true_iff in H'. destruct H' as [H3 H4]. rewrite H3, (wfz_wf _ _ H4). reflexivity.
  - apply wf_struct_weaken. assumption.
  - destruct o; [apply wf_struct_weaken; assumption|reflexivity].
Qed.

Lemma wf_vals_weaken : forall ty vs, wf_vals wfz_prim ty vs = true -> wf_vals wf_prim ty vs = true.
Proof.
  induction ty as [|f ty IH]; intros [|v vs] H; cbn in *; try discriminate; try reflexivity.
  apply andb_true_iff in H. destruct H as [H1 H2]. rewrite (wf_fval_weaken _ _ H1), (IH _ H2). reflexivity.
Qed.

Lemma diff_field_ok t k a b :
  kind_ok k = true -> wf_fval wfz_prim k a = true -> wf_fval wfz_prim k b = true ->
  exists ps, diff_field t k a b = Some ps.
Proof.
  intros Hk Ha Hb. pose proof (wf_fval_weaken _ _ Hb) as Hb'.
  destruct k as [pr|pr|pr|n pr|pr|fs|fs], a as [x|ox|lx|mx|lx|ox]; cbn [wf_fval] in Ha; try discriminate;
    destruct b as [y|oy|ly|my|ly|oy]; cbn [wf_fval] in Hb, Hb'; try discriminate; cbn [diff_field].
  - destruct (pval_goeq x y); [eauto|]. destruct (wf_prim_enc pr y Hb') as [vt ->]. cbn. eauto.
  - destruct oy as [y|].
    + destruct (wf_prim_enc pr y Hb') as [vt ->]. destruct ox; cbn; eauto.
    + destruct ox; eauto.
  - apply andb_true_iff in Hb'. destruct Hb' as [Hl Hf]. apply Nat.leb_le in Hl.
    destruct (Nat.ltb_spec max_size (length ly)); [lia|].
    destruct (diff_list_ok pr t ly lx 0) as [ups ->]; [apply forallb_Forall; assumption|]. eauto.
  - apply andb_true_iff in Hb'. destruct Hb' as [Hl Hf]. apply Nat.eqb_eq in Hl.
    cbn [kind_ok] in Hk. apply andb_true_iff in Hk. destruct Hk as [_ Hn]. apply Nat.leb_le in Hn.
    destruct (Nat.ltb_spec max_size (length ly)); [lia|].
    destruct (diff_list_ok pr t ly lx 0) as [ups ->]; [apply forallb_Forall; assumption|]. eauto.
  - apply andb_true_iff in Hb'. destruct Hb' as [Hb' Hf]. apply andb_true_iff in Hb'. destruct Hb' as [Hl _].
    apply Nat.leb_le in Hl. destruct (Nat.ltb_spec max_size (length my)); [lia|].
    destruct (diff_map_upd_ok pr t mx my) as [ups ->]; [|eauto].
    apply forallb_Forall in Hf. eapply Forall_impl; [|exact Hf]. intros kv H'. apply andb_true_iff in H'. tauto.
  - apply diff_struct_ok. assumption.
  - destruct ox as [lx|], oy as [ly|]; eauto.
    + apply diff_struct_ok. assumption.
    + apply enc_struct_ok. assumption.
Qed.

(* ------------------------------------------------------------------ *)
(* all fields                                                           *)
(* ------------------------------------------------------------------ *)
(* the difference of every map field fits into one Decode (SetValue refuses
   more than 1000 points for a map) *)
Definition field_small (f : field) (x y : fval) : bool :=
  match f_kind f with
  | KMap _ => match diff_field (f_type f) (f_kind f) x y with
              | Some ps => (length ps <=? max_size)%nat
              | None => true
              end
  | _ => true
  end.

Fixpoint diffs_small (ty : cfgty) (a b : list fval) : bool :=
  match ty, a, b with
  | f :: ty', x :: a', y :: b' => (f_edge f || field_small f x y) && diffs_small ty' a' b'
  | _, _, _ => true
  end.

Section AllFields.
Hypothesis Hconv : conv_exact.

Lemma diff_fields_ok : forall ty a b,
  forallb (fun f => nonempty (f_type f) && kind_ok (f_kind f)) ty = true ->
  wf_vals wfz_prim ty a = true -> wf_vals wfz_prim ty b = true ->
  diffs_small ty a b = true ->
  exists ps pss, diff_fields ty a b = Some ps /\ gather ty pss = (ps, []) /\
                 fields_ok ty a pss (take_points ty a b).
Proof.
  induction ty as [|f ty IH]; intros a b Hk Ha Hb Hs.
  - destruct a; [|discriminate]. destruct b; [|discriminate]. exists [], []. repeat split. constructor.
  - destruct a as [|x a]; [discriminate|]. destruct b as [|y b]; [discriminate|].
    cbn [wf_vals] in Ha, Hb. apply andb_true_iff in Ha. destruct Ha as [Hx Ha].
    apply andb_true_iff in Hb. destruct Hb as [Hy Hb].
    cbn [forallb] in Hk. apply andb_true_iff in Hk. destruct Hk as [Hf Hk].
    apply andb_true_iff in Hf. destruct Hf as [_ Hf].
    cbn [diffs_small] in Hs. apply andb_true_iff in Hs. destruct Hs as [Hs1 Hs].
    destruct (IH a b Hk Ha Hb Hs) as (ps & pss & Hd & Hg & Hok).
    cbn [diff_fields take_points gather].
    destruct (f_edge f) eqn:Fe.
    + exists ps, ([] :: pss). rewrite Hd, Hg. repeat split.
      constructor; [constructor|reflexivity|assumption].
    + destruct (diff_field_ok (f_type f) (f_kind f) x y Hf Hx Hy) as [ps1 Hps1].
      exists (ps1 ++ ps), (ps1 :: pss). rewrite Hps1, Hd, Hg. repeat split.
      constructor; [eapply diff_field_types; eassumption| |assumption].
      apply (field_dm Hconv (f_type f)); try assumption.
      cbn [orb] in Hs1. unfold field_small in Hs1. destruct (f_kind f); try exact I.
      rewrite Hps1 in Hs1. apply Nat.leb_le. assumption.
Qed.

(* C10, second half *)
Theorem diff_merge ty a b :
  wf_ty ty = true -> wfzb ty a = true -> wfzb ty b = true -> nonempty (c_id a) = true ->
  diffs_small ty (c_vals a) (c_vals b) = true ->
  exists ps, diff ty a b = Ok ps /\ merge_points ty (c_id a) ps a = Ok (expected_merge ty a b).
Proof.
  unfold wf_ty, wfzb. intros Hty Ha Hb Hid Hs.
  apply andb_true_iff in Hty. destruct Hty as [Hty De]. apply andb_true_iff in Hty. destruct Hty as [Hk Dp].
  destruct (diff_fields_ok ty (c_vals a) (c_vals b) Hk Ha Hb Hs) as (ps & pss & Hd & Hg & Hok).
  exists ps. unfold diff. rewrite Hd. split; [reflexivity|].
  unfold merge_points. rewrite Hid, bytes_eqb_refl. cbn [andb].
  unfold decode_into. cbn [n_id n_parent n_points n_edge].
  pose proof (dec_fields_gather _ _ _ _ Hok [] [] Dp De) as Hdec.
  rewrite Hg in Hdec. cbn [fst snd app] in Hdec. rewrite Hdec by (intros p []). cbn [omap].
  unfold expected_merge. f_equal. destruct (c_id a); [discriminate|reflexivity].
Qed.

(* the statement of the property: the difference is merged into Decode(Encode(a)) *)
Theorem diff_merge_after_roundtrip ty a b :
  wf_ty ty = true -> wfzb ty a = true -> wfzb ty b = true -> nonempty (c_id a) = true ->
  diffs_small ty (c_vals a) (c_vals b) = true ->
  exists n a' ps, encode ty a = Ok n /\ decode ty n = Ok a' /\ diff ty a b = Ok ps /\
                  merge_points ty (c_id a) ps a' = Ok (expected_merge ty a b).
Proof.
  intros Hty Ha Hb Hid Hs.
  destruct (roundtrip Hconv ty a Hty (wf_vals_weaken _ _ Ha)) as (n & He & Hdn).
  destruct (diff_merge ty a b Hty Ha Hb Hid Hs) as (ps & Hd & Hm).
  exists n, a, ps. repeat split; assumption.
Qed.

End AllFields.

(* when the point fields are the only difference the result is b itself *)
Lemma take_points_all : forall ty a b,
  length a = length ty -> length b = length ty ->
  (forall f x y, In (f, (x, y)) (combine ty (combine a b)) -> f_edge f = true -> x = y) ->
  take_points ty a b = b.
Proof.
  induction ty as [|f ty IH]; intros [|x a] [|y b] Ha Hb H; cbn in *; try discriminate; try reflexivity.
  f_equal.
  - destruct (f_edge f) eqn:Fe; [|reflexivity]. apply (H f x y); [left; reflexivity|assumption].
  - apply IH; try lia. intros f' x' y' Hin. apply H. right. assumption.
Qed.

Lemma expected_merge_is_b ty a b :
  c_id a = c_id b -> c_parent a = c_parent b ->
  length (c_vals a) = length ty -> length (c_vals b) = length ty ->
  (forall f x y, In (f, (x, y)) (combine ty (combine (c_vals a) (c_vals b))) -> f_edge f = true -> x = y) ->
  expected_merge ty a b = b.
Proof.
  intros Hi Hp Ha Hb H. unfold expected_merge. rewrite (take_points_all ty _ _ Ha Hb H), Hi, Hp.
  destruct b; reflexivity.
Qed.

(* a sufficient condition for diffs_small: entries before + entries after <= 1000 for every map field *)
Fixpoint maps_sum_small (ty : cfgty) (a b : list fval) : bool :=
  match ty, a, b with
  | f :: ty', x :: a', y :: b' =>
      (match f_kind f, x, y with
       | KMap _, FMap mx, FMap my => (length mx + length my <=? max_size)%nat
       | _, _, _ => true
       end) && maps_sum_small ty' a' b'
  | _, _, _ => true
  end.

Lemma diff_map_upd_length t a : forall b ups, diff_map_upd t a b = Some ups -> (length ups <= length b)%nat.
Proof.
  induction b as [|[k y] b IH]; intros ups Hd; cbn [diff_map_upd] in Hd.
  - inversion Hd. cbn. lia.
  - destruct (diff_map_upd t a b) as [r|] eqn:Er.
    2:{ destruct (if match m_lookup k a with Some x => negb (pval_goeq y x) | None => true end
                  then option_map (fun vt => [addpt t k vt]) (enc_pval y) else Some []); discriminate. }
    specialize (IH r eq_refl).
    destruct (match m_lookup k a with Some x => negb (pval_goeq y x) | None => true end).
    + destruct (enc_pval y); [|discriminate]. cbn [option_map] in Hd. inversion Hd; subst. cbn. lia.
    + inversion Hd; subst. cbn. lia.
Qed.

Lemma diff_map_del_length t b : forall a, (length (diff_map_del t a b) <= length a)%nat.
Proof.
  induction a as [|[k x] a IH]; [cbn; lia|].
  unfold diff_map_del in *. cbn [flat_map fst]. rewrite app_length.
  destruct (m_lookup k b); cbn [length]; lia.
Qed.

Lemma maps_sum_small_ok : forall ty a b, maps_sum_small ty a b = true -> diffs_small ty a b = true.
Proof.
  induction ty as [|f ty IH]; intros [|x a] [|y b] H; cbn [maps_sum_small diffs_small] in *; try reflexivity.
  apply andb_true_iff in H. destruct H as [H1 H2]. rewrite (IH _ _ H2), andb_true_r.
  destruct (f_edge f); [reflexivity|]. cbn [orb]. unfold field_small.
  destruct (f_kind f) eqn:K; try reflexivity.
  destruct x as [?|?|?|mx|?|?]; cbn [diff_field]; try reflexivity.
  destruct y as [?|?|?|my|?|?]; cbn [diff_field]; try reflexivity.
  destruct (max_size <? length my)%nat; [reflexivity|].
  destruct (diff_map_upd (f_type f) mx my) as [ups|] eqn:Eu; [|reflexivity].
  apply Nat.leb_le. apply Nat.leb_le in H1. rewrite app_length.
  pose proof (diff_map_upd_length _ _ _ _ Eu). pose proof (diff_map_del_length (f_type f) my mx). lia.
Qed.
