(* Generic driver: reads one case per line in the val text format, runs the
   extracted checker of the given area, prints "<index> <code>" for every case
   whose code is non-zero and a final "TOTAL <n>".
   Format:  123 = VN ; z-12 / z12 = VZ ; x0a0b = VB (hex, may be empty) ; ( ... ) = VL *)
open Model

let rec pos_of_int (n : int) : positive =
  if n = 1 then XH
  else if n land 1 = 0 then XO (pos_of_int (n lsr 1))
  else XI (pos_of_int (n lsr 1))

let n_of_int (n : int) : n = if n = 0 then N0 else Npos (pos_of_int n)

let n10 = n_of_int 10

(* decimal string -> N, arbitrary size *)
let n_of_dec (s : string) (i : int) (j : int) : n =
  if j - i <= 17 then n_of_int (int_of_string (String.sub s i (j - i)))
  else begin
    let acc = ref N0 in
    for k = i to j - 1 do
      acc := N.add (N.mul !acc n10) (n_of_int (Char.code s.[k] - 48))
    done;
    !acc
  end

let rec int_of_pos = function
  | XH -> 1
  | XO p -> 2 * int_of_pos p
  | XI p -> 2 * int_of_pos p + 1
let int_of_n = function N0 -> 0 | Npos p -> int_of_pos p

let hexval c =
  match c with
  | '0' .. '9' -> Char.code c - 48
  | 'a' .. 'f' -> Char.code c - 87
  | 'A' .. 'F' -> Char.code c - 55
  | _ -> failwith "hex"

let byte_tab = Array.init 256 n_of_int

exception Parse of string

let parse (s : string) : val0 =
  let len = String.length s in
  let pos = ref 0 in
  let skip () = while !pos < len && (s.[!pos] = ' ' || s.[!pos] = '\t') do incr pos done in
  let rec value () : val0 =
    skip ();
    if !pos >= len then raise (Parse "eof");
    match s.[!pos] with
    | '(' ->
        incr pos;
        let items = ref [] in
        let continue = ref true in
        while !continue do
          skip ();
          if !pos >= len then raise (Parse "unterminated list");
          if s.[!pos] = ')' then (incr pos; continue := false)
          else items := value () :: !items
        done;
        VL (List.rev !items)
    | 'x' ->
        incr pos;
        let start = !pos in
        while !pos < len && s.[!pos] <> ' ' && s.[!pos] <> ')' do incr pos done;
        let n = (!pos - start) / 2 in
        let l = ref [] in
        for k = n - 1 downto 0 do
          l := byte_tab.(hexval s.[start + 2*k] * 16 + hexval s.[start + 2*k + 1]) :: !l
        done;
        VB !l
    | 'z' ->
        incr pos;
        let neg = (!pos < len && s.[!pos] = '-') in
        if neg then incr pos;
        let start = !pos in
        while !pos < len && s.[!pos] >= '0' && s.[!pos] <= '9' do incr pos done;
        let m = Z.of_N (n_of_dec s start !pos) in
        VZ (if neg then Z.opp m else m)
    | '0' .. '9' ->
        let start = !pos in
        while !pos < len && s.[!pos] >= '0' && s.[!pos] <= '9' do incr pos done;
        VN (n_of_dec s start !pos)
    | c -> raise (Parse (Printf.sprintf "unexpected %c at %d" c !pos))
  in
  value ()

let () =
  let area = n_of_int (int_of_string Sys.argv.(1)) in
  let ic = if Array.length Sys.argv > 2 then open_in Sys.argv.(2) else stdin in
  let idx = ref 0 in
  (try
    while true do
      let line = input_line ic in
      if String.length line > 0 then begin
        let code =
          try int_of_n (dispatch area (parse line))
          with Parse m -> (prerr_endline ("parse error: " ^ m); 97)
             | Stack_overflow -> 96 in
        if code <> 0 then Printf.printf "%d %d\n" !idx code;
        incr idx
      end
    done
  with End_of_file -> ());
  Printf.printf "TOTAL %d\n" !idx
