(* Extraction of the executable models and case checkers to OCaml.
   ExtrOcamlBasic only: bool, option, unit, list, prod, sumbool, sumor map to
   the OCaml types; N, Z, positive, nat stay the extracted inductive types. *)
From Coq Require Import Extraction ExtrOcamlBasic.
From Verif Require Import Base.Bytes Base.Val.
From Verif Require Cobs.Model.
From Verif Require Rule.Model.
From Verif Require Store.Model Store.Check Store.CheckConc.
From Verif Require Sync.Model.

From Verif Require Sched.Model.

From Verif Require Wire.Model.

From Verif Require Modbus.C18Check.

From Verif Require Modbus.C19Check.

From Verif Require Auth.Model.

From Verif Require C15Check.

From Verif Require Serial.Model.

From Verif Require Codec.Model.

From Verif Require Manager.Model.

(* area id -> checker *)
Definition dispatch (area : N) (v : val) : N :=
  match area with
  | 1%N => Store.Check.check_c01 v
  | 2%N => Sync.Model.check_c02 v
  | 3%N => Store.Check.check_c03 v
  | 4%N => Store.CheckConc.check_c04 v
  | 5%N => Store.Check.check_c05 v
  | 6%N => Store.Check.check_c06 v
  | 13%N => Rule.Model.check_val v
  | 16%N => Cobs.Model.check_val v
  | 20%N => Store.CheckConc.check_c20 v
  | 14%N => Sched.Model.check_val v
  | 12%N => Wire.Model.check_val v
  | 18%N => Modbus.C18Check.check_val v
  | 19%N => Modbus.C19Check.check_val v
  | 9%N => Auth.Model.check_val v
  | 15%N => C15Check.check_val v
  | 115%N => C15Check.diag_val v   (* diagnosis only: which comparison fails first *)
  | 17%N => Serial.Model.check_val v
  | 10%N => Codec.Model.check_val10 v
  | 11%N => Codec.Model.check_val11 v
  | 7%N => Manager.Model.check_val v
  | 8%N => Manager.Model.check_val08 v
  | _ => 98%N
  end.

Extraction "model.ml" dispatch N.of_nat N.to_nat N.add N.mul Z.opp Z.of_N.
