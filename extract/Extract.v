(* Extraction of the executable models and case checkers to OCaml.
   ExtrOcamlBasic only: bool, option, unit, list, prod, sumbool, sumor map to
   the OCaml types; N, Z, positive, nat stay the extracted inductive types. *)
From Coq Require Import Extraction ExtrOcamlBasic.
From Verif Require Import Base.Bytes Base.Val.
From Verif Require Cobs.Model.

(* area id -> checker *)
Definition dispatch (area : N) (v : val) : N :=
  match area with
  | 16%N => Cobs.Model.check_val v
  | _ => 98%N
  end.

Extraction "model.ml" dispatch N.of_nat N.to_nat N.add N.mul Z.opp Z.of_N.
