#!/bin/sh
# extract the models and build the OCaml driver
set -e
cd "$(dirname "$0")"
rm -f model.ml model.mli
coqc -Q ../coq/theories Verif Extract.v > extract.log 2>&1 || { cat extract.log; exit 1; }
ocamlfind ocamlopt -O3 -unboxed-types 2>/dev/null >/dev/null || true
ocamlfind ocamlopt -w -a -o driver model.mli model.ml driver.ml
