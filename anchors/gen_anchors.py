#!/usr/bin/env python3
"""Regenerate coq/theories/Anchors/Generated.v from the Go sources of the repository under test
(REPO, default /repo) with the translator harness/cmd/anchors.  Run by ./check before every Coq build;
the file is rewritten only when its text changes, so an unchanged repository costs nothing."""
import os, subprocess, sys
root = os.path.dirname(os.path.dirname(os.path.abspath(__file__)))
repo = os.environ.get("REPO", "/repo")
env = dict(os.environ, GOFLAGS="-mod=mod", GOPROXY="off", GOSUMDB="off", GOTOOLCHAIN="local")
h = os.path.join(root, "harness")
for cmd in (["sh", "gen_gomod.sh"], ["go", "build", "-o", "bin/anchors", "./cmd/anchors"],
            ["bin/anchors", "-repo", repo, "-out", os.path.join(root, "coq", "theories", "Anchors", "Generated.v")]):
    r = subprocess.run(cmd, cwd=h, env=env, stdout=subprocess.PIPE, stderr=subprocess.STDOUT, text=True)
    if r.returncode != 0:
        print("anchors: %s failed:\n%s" % (" ".join(cmd), r.stdout[-1500:]))
        sys.exit(1)
